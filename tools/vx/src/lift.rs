//! [R] real lifting (DESIGN.md §4.4): a Rust function over f64 / ndarray / quantity types is
//! translated into a Verus `spec fn` over `real` (machine arithmetic treated as mathematical,
//! assumption A11; physical units erased).  The rule list is closed: anything not handled
//! below makes the unit *undecided*.
//!
//! directives
//!   //@ltype  <RustTypeName> => <spec type>          (type map entry, by last path segment)
//!   //@lstruct <file> <Name>                          lifted struct L_<Name> derived from the definition
//!   //@lextern <name>(<spec types>) -> <spec type>    uninterpreted spec fn, emitted (L13)
//!   //@ldeclare <name>(<spec types>) -> <spec type>   same, but defined by hand in the template
//!   //@lift <file> <path> [name=<L_name>] [observe=a,b]   ... //@end
//!
//! arrays: `RArr { len: int, at: spec_fn(int) -> real }`, `RArr2 { n, m, at: spec_fn(int,int) -> real }`
//! (declared in contracts/r/prelude.rs).

use crate::extract::{line_of, Offsets};
use crate::locate::find_fn;
use crate::template::Block;
use crate::Ctx;
use quote::ToTokens;
use serde_json::{json, Value};
use std::collections::{HashMap, HashSet};
use syn::spanned::Spanned;

#[derive(Default)]
pub struct LiftRegistry {
    pub types: HashMap<String, String>,
    pub structs: HashMap<String, Vec<(String, String)>>,
    /// fn name -> (param types incl. receiver, return type)
    pub fns: HashMap<String, (Vec<String>, String)>,
    /// bare (glob-imported) enum variant -> (full lifted path, lifted enum type, payload types)
    pub variants: HashMap<String, (String, String, Vec<String>)>,
}

#[derive(Clone, Debug)]
struct Val {
    text: String,
    ty: String,
}
fn v(text: impl Into<String>, ty: &str) -> Val {
    Val { text: text.into(), ty: ty.to_string() }
}

type R<T> = Result<T, String>;

fn unsupported<T>(what: &str, e: &impl ToTokens) -> R<T> {
    let mut s = e.to_token_stream().to_string();
    if s.len() > 120 {
        s.truncate(120);
        s.push_str("...");
    }
    Err(format!("construct outside rule list (lift): {what}: `{s}`"))
}

pub fn float_lit(s: &str) -> R<String> {
    let t: String = s.chars().filter(|c| *c != '_').collect();
    let t = t.trim_end_matches("f64").trim_end_matches("f32").to_string();
    let (mant, exp) = match t.split_once(|c| c == 'e' || c == 'E') {
        Some((m, e)) => (m.to_string(), e.parse::<i64>().map_err(|_| format!("bad float literal {s}"))?),
        None => (t.clone(), 0),
    };
    let (ip, fp) = match mant.split_once('.') {
        Some((a, b)) => (a.to_string(), b.to_string()),
        None => (mant.clone(), String::new()),
    };
    let mut digits = format!("{ip}{fp}");
    let mut scale = fp.len() as i64 - exp; // value = digits / 10^scale
    while digits.len() > 1 && digits.starts_with('0') {
        digits.remove(0);
    }
    while scale > 0 && digits.len() > 1 && digits.ends_with('0') {
        digits.pop();
        scale -= 1;
    }
    if digits.chars().any(|c| !c.is_ascii_digit()) || digits.is_empty() {
        return Err(format!("bad float literal {s}"));
    }
    if digits == "0" {
        return Ok("0real".into());
    }
    if scale <= 0 {
        let z = "0".repeat((-scale) as usize);
        Ok(format!("{digits}{z}real"))
    } else {
        let z = "0".repeat(scale as usize);
        Ok(format!("({digits}real / 1{z}real)"))
    }
}

pub fn lift_type(reg: &LiftRegistry, ty: &syn::Type, self_ty: Option<&str>) -> R<String> {
    match ty {
        syn::Type::Reference(r) => lift_type(reg, &r.elem, self_ty),
        syn::Type::Paren(p) => lift_type(reg, &p.elem, self_ty),
        syn::Type::Tuple(t) => {
            if t.elems.is_empty() {
                return Ok("()".into());
            }
            let v: R<Vec<String>> = t.elems.iter().map(|e| lift_type(reg, e, self_ty)).collect();
            Ok(format!("({})", v?.join(", ")))
        }
        syn::Type::Slice(sl) => {
            let e = lift_type(reg, &sl.elem, self_ty)?;
            match e.as_str() {
                "int" => Ok("Seq<int>".into()),
                "real" => Ok("RArr".into()),
                "Rec" => Ok("OArr".into()),
                _ => unsupported("slice element type", ty),
            }
        }
        syn::Type::Array(a) => {
            let e = lift_type(reg, &a.elem, self_ty)?;
            if e == "real" {
                Ok("RArr".into())
            } else if let syn::Expr::Lit(syn::ExprLit { lit: syn::Lit::Int(n), .. }) = &a.len {
                // a fixed-size array of records is a tuple
                let n: usize = n.base10_parse().map_err(|_| "array length".to_string())?;
                Ok(format!("({})", vec![e; n].join(", ")))
            } else {
                unsupported("array type", ty)
            }
        }
        syn::Type::Path(p) => {
            let seg = p.path.segments.last().ok_or("empty type path")?;
            let name = seg.ident.to_string();
            let args: Vec<&syn::Type> = match &seg.arguments {
                syn::PathArguments::AngleBracketed(a) => a
                    .args
                    .iter()
                    .filter_map(|x| if let syn::GenericArgument::Type(t) = x { Some(t) } else { None })
                    .collect(),
                _ => vec![],
            };
            match name.as_str() {
                "f64" | "f32" => return Ok("real".into()),
                "usize" | "u64" | "u32" | "i32" | "i64" | "isize" => return Ok("int".into()),
                "bool" => return Ok("bool".into()),
                "Self" => {
                    return match self_ty {
                        Some(s) => Ok(reg.types.get(s).cloned().unwrap_or(format!("L_{s}"))),
                        None => reg.types.get("Self").cloned().ok_or("Self outside impl".to_string()),
                    }
                }
                "Array1" | "Vec" => {
                    if args.len() == 1 {
                        match lift_type(reg, args[0], self_ty)?.as_str() {
                            "real" => return Ok("RArr".into()),
                            "Rec" => return Ok("OArr".into()),
                            "int" => return Ok("Seq<int>".into()),
                            t if t.starts_with("L_") => return Ok(format!("Seq<{t}>")),
                            _ => {}
                        }
                    }
                    return unsupported("array element type", ty);
                }
                "Array3" => return Ok("RArr3".into()),
                "Array2" => {
                    if args.len() == 1 && lift_type(reg, args[0], self_ty)? == "Rec" {
                        return Ok("OArr2".into());
                    }
                    return Ok("RArr2".into());
                }
                "HashMap" | "BTreeMap" | "IndexMap" if args.len() == 2 => {
                    return Ok(format!("Map<{}, {}>", lift_type(reg, args[0], self_ty)?, lift_type(reg, args[1], self_ty)?))
                }
                "Option" if args.len() == 1 => return Ok(format!("Option<{}>", lift_type(reg, args[0], self_ty)?)),
                "Arc" | "Box" if args.len() == 1 => return lift_type(reg, args[0], self_ty),
                // L11: `Quantity<T, U>` without an //@ltype entry is its payload (units erased)
                "Quantity" if args.len() == 2 && !reg.types.contains_key("Quantity") => return lift_type(reg, args[0], self_ty),
                "EosResult" if args.len() == 1 => return Ok(format!("Result<{}, LErr>", lift_type(reg, args[0], self_ty)?)),
                "Result" if args.len() == 2 => {
                    return Ok(format!("Result<{}, {}>", lift_type(reg, args[0], self_ty)?, lift_type(reg, args[1], self_ty)?))
                }
                _ => {}
            }
            if let Some(t) = reg.types.get(&name) {
                // quantity types with an array payload: Moles<Array1<f64>> → RArr
                if t == "real" && args.len() == 1 {
                    let inner = lift_type(reg, args[0], self_ty)?;
                    if inner == "RArr" || inner == "RArr2" {
                        return Ok(inner);
                    }
                }
                return Ok(t.clone());
            }
            if reg.structs.contains_key(&name) {
                return Ok(format!("L_{name}"));
            }
            Err(format!("construct outside rule list (lift): type `{}` has no //@ltype entry", ty.to_token_stream()))
        }
        _ => unsupported("type", ty),
    }
}

struct Lifter<'a> {
    reg: &'a LiftRegistry,
    self_ty: Option<String>,
    fn_name: String,
    params: Vec<(String, String)>,
    env: Vec<HashMap<String, String>>,
    havocs: Vec<String>,
    local_closures: HashMap<String, syn::Expr>,
    notes: Vec<(String, usize, String)>,
    src: &'a str,
    offs: &'a Offsets,
    ret_ty: String,
    tmp: usize,
    /// hoisted `?` operands of the current evaluation scope: (fresh var, lifted operand)
    hoist: Vec<Vec<(String, Val)>>,
    /// the `&mut` parameter returned by a `()` function, if any
    out_param: Option<String>,
    observe: Option<String>,
    /// L17c: number of lifted calls per callee so far (evaluation order)
    calls_seen: HashMap<String, usize>,
    /// L17e: declared types of loop variables (`loopvars=s:L_State;i:int`)
    loopvars: HashMap<String, String>,
    /// L23: tolerant lift (observe mode only)
    tolerant: bool,
    /// env depth at the entry of every enclosing closure that may run more than once (map / mapv / from_shape_fn)
    closure_base: Vec<usize>,
    /// `const_values`: module constants of the source file (name -> initialiser)
    consts: HashMap<String, syn::Expr>,
    /// L21b: module constants (of the source file and of `consts_from` files) whose declared type is `[f64; N]`
    const_tables: HashSet<String>,
    const_stack: Vec<String>,
    /// `named_sums` flag of the directive: `.sum()` of a compound array expression gets a named summand function
    named_sums: bool,
    /// variables of an enclosing scope that the closure being lifted mutates (reads of them are not liftable)
    dirty_captured: Vec<String>,
    /// observables shared with the main function: binding name -> opaque spec fn to call instead of inlining
    shared: HashMap<String, String>,
    rebound_params: Vec<String>,
    /// > 0 while lifting a block in value position (closure bodies, branch values)
    in_value: usize,
}

fn is_num(t: &str) -> bool {
    t == "real" || t == "int"
}

impl<'a> Lifter<'a> {
    fn note(&mut self, rule: &str, sp: proc_macro2::Span, msg: &str) {
        let l = line_of(self.src, self.offs.range(self.src, sp).0);
        self.notes.push((rule.to_string(), l, msg.to_string()));
    }
    fn lookup(&self, name: &str) -> Option<String> {
        for m in self.env.iter().rev() {
            if let Some(t) = m.get(name) {
                return Some(t.clone());
            }
        }
        None
    }
    /// is `name` a variable of an enclosing scope captured by the closure being lifted (a closure that may run more
    /// than once: a mutation of it is visible to later invocations)?
    fn captured(&self, name: &str) -> bool {
        let Some(base) = self.closure_base.last().copied() else { return false };
        for (k, m) in self.env.iter().enumerate().rev() {
            if m.contains_key(name) {
                return k < base;
            }
        }
        false
    }
    fn bind(&mut self, name: &str, ty: &str) {
        self.env.last_mut().unwrap().insert(name.to_string(), ty.to_string());
    }
    fn fresh(&mut self, base: &str) -> String {
        self.tmp += 1;
        format!("{base}__{}", self.tmp)
    }

    fn elem(&self, a: &Val, idx: &str) -> R<Val> {
        match a.ty.as_str() {
            "RArr" => Ok(v(format!("({}.at)({idx})", a.text), "real")),
            "OArr" => Ok(v(format!("({}.at)({idx})", a.text), "Rec")),
            "Seq<int>" => Ok(v(format!("{}[{idx}]", a.text), "int")),
            t if t.starts_with("Seq<") && t.ends_with('>') => Ok(v(format!("{}[{idx}]", a.text), &t[4..t.len() - 1])),
            _ => Err(format!("construct outside rule list (lift): indexing a value of type {}", a.ty)),
        }
    }

    fn binop(&mut self, op: &syn::BinOp, a: Val, b: Val, whole: &syn::Expr) -> R<Val> {
        use syn::BinOp::*;
        let sym = match op {
            Add(_) => "+",
            Sub(_) => "-",
            Mul(_) => "*",
            Div(_) => "/",
            Rem(_) => "%",
            Lt(_) => "<",
            Le(_) => "<=",
            Gt(_) => ">",
            Ge(_) => ">=",
            Eq(_) => "==",
            Ne(_) => "!=",
            And(_) => "&&",
            Or(_) => "||",
            _ => return unsupported("binary operator", whole),
        };
        let arith = matches!(op, Add(_) | Sub(_) | Mul(_) | Div(_) | Rem(_));
        let cmp = matches!(op, Lt(_) | Le(_) | Gt(_) | Ge(_) | Eq(_) | Ne(_));
        if matches!(op, And(_) | Or(_)) {
            return Ok(v(format!("({} {sym} {})", a.text, b.text), "bool"));
        }
        if arith {
            match (a.ty.as_str(), b.ty.as_str()) {
                ("real", "real") | ("int", "int") => {
                    if a.ty == "int" && matches!(op, Div(_) | Sub(_)) {
                        self.note("L3", whole.span(), "machine-integer subtraction/division lifted to int (side condition: no wrap-around)");
                    }
                    return Ok(v(format!("({} {sym} {})", a.text, b.text), &a.ty));
                }
                ("RArr", "real") => {
                    self.note("L9", whole.span(), "element-wise array arithmetic");
                    let (pre, an, post) = self.arr_bind(&a);
                    return Ok(v(format!("{pre}RArr {{ len: {0}.len, at: |i__: int| ({0}.at)(i__) {sym} {1} }}{post}", an, b.text), "RArr"));
                }
                ("real", "RArr") => {
                    self.note("L9", whole.span(), "element-wise array arithmetic");
                    let (pre, bn, post) = self.arr_bind(&b);
                    return Ok(v(format!("{pre}RArr {{ len: {1}.len, at: |i__: int| {0} {sym} ({1}.at)(i__) }}{post}", a.text, bn), "RArr"));
                }
                ("RArr", "RArr") => {
                    self.note("L9", whole.span(), "element-wise array arithmetic");
                    let (pre1, an, post1) = self.arr_bind(&a);
                    let (pre2, bn, post2) = self.arr_bind(&b);
                    return Ok(v(
                        format!("{pre1}{pre2}RArr {{ len: {0}.len, at: |i__: int| ({0}.at)(i__) {sym} ({1}.at)(i__) }}{post2}{post1}", an, bn),
                        "RArr",
                    ));
                }
                ("RArr2", "real") => {
                    self.note("L9", whole.span(), "element-wise array arithmetic");
                    return Ok(v(format!("RArr2 {{ n: {0}.n, m: {0}.m, at: |i__: int, j__: int| ({0}.at)(i__, j__) {sym} {1} }}", a.text, b.text), "RArr2"));
                }
                ("real", "RArr2") => {
                    self.note("L9", whole.span(), "element-wise array arithmetic");
                    return Ok(v(format!("RArr2 {{ n: {1}.n, m: {1}.m, at: |i__: int, j__: int| {0} {sym} ({1}.at)(i__, j__) }}", a.text, b.text), "RArr2"));
                }
                ("RArr2", "RArr2") => {
                    self.note("L9", whole.span(), "element-wise array arithmetic");
                    return Ok(v(
                        format!("RArr2 {{ n: {0}.n, m: {0}.m, at: |i__: int, j__: int| ({0}.at)(i__, j__) {sym} ({1}.at)(i__, j__) }}", a.text, b.text),
                        "RArr2",
                    ));
                }
                _ => {}
            }
        }
        if cmp && (a.ty == b.ty) {
            return Ok(v(format!("({} {sym} {})", a.text, b.text), "bool"));
        }
        Err(format!(
            "construct outside rule list (lift): operator {sym} on {} and {} in `{}`",
            a.ty,
            b.ty,
            whole.to_token_stream()
        ))
    }

    fn path_str(p: &syn::Path) -> String {
        p.segments.iter().map(|s| s.ident.to_string()).collect::<Vec<_>>().join("::")
    }

    /// a compound array operand is bound to a fresh name once instead of being repeated in `len` and `at`
    fn arr_bind(&mut self, x: &Val) -> (String, String, String) {
        if x.text.starts_with("RArr {") || x.text.starts_with("{ let") || x.text.starts_with("(RArr {") || x.text.starts_with("({ let") {
            let n = self.fresh("arr");
            (format!("{{ let {n} = {}; ", x.text), n, " }".to_string())
        } else {
            (String::new(), x.text.clone(), String::new())
        }
    }
    fn closure1(&mut self, c: &syn::Expr, arg_ty: &str) -> R<(String, Val)> {
        // returns (param name, lifted body)
        // `f64::exp` etc. in function position is the closure `|x| x.exp()`
        if let syn::Expr::Path(p) = c {
            let segs: Vec<String> = p.path.segments.iter().map(|s| s.ident.to_string()).collect();
            if segs.len() == 2 && (segs[0] == "f64" || self.reg.types.get(&segs[0]).map(|t| t == "real").unwrap_or(false)) && segs[1] != "from" {
                let synth: syn::Expr = syn::parse_str(&format!("|x__| x__.{}()", segs[1])).map_err(|e| e.to_string())?;
                return self.closure1(&synth, arg_ty);
            }
            // `T::from` as a function value where T is lifted to the argument's own type: the identity
            if segs.len() == 2 && segs[1] == "from" && self.reg.types.get(&segs[0]).map(|t| t == arg_ty).unwrap_or(false) {
                let synth: syn::Expr = syn::parse_str("|x__| x__").map_err(|e| e.to_string())?;
                return self.closure1(&synth, arg_ty);
            }
        }
        // a closure bound to a local (`let f = |x: N| ..; xs.mapv(f)`) stands for its text
        if let syn::Expr::Path(p) = c {
            if let Some(id) = p.path.get_ident() {
                if let Some(cl) = self.local_closures.get(&id.to_string()).cloned() {
                    return self.closure1(&cl, arg_ty);
                }
            }
        }
        let syn::Expr::Closure(cl) = c else { return unsupported("expected closure", c) };
        if cl.inputs.len() != 1 {
            return unsupported("closure arity", c);
        }
        let name = match &cl.inputs[0] {
            syn::Pat::Ident(i) => i.ident.to_string(),
            syn::Pat::Type(pt) => match &*pt.pat {
                syn::Pat::Ident(i) => i.ident.to_string(),
                _ => return unsupported("closure pattern", c),
            },
            syn::Pat::Reference(r) => match &*r.pat {
                syn::Pat::Ident(i) => i.ident.to_string(),
                _ => return unsupported("closure pattern", c),
            },
            syn::Pat::Wild(_) => self.fresh("w"),
            _ => return unsupported("closure pattern", c),
        };
        // variables of the enclosing scopes that the closure body mutates
        let n_dirty = self.dirty_captured.len();
        {
            let blk: syn::Block = match &*cl.body {
                syn::Expr::Block(b) => b.block.clone(),
                other => syn::Block { brace_token: Default::default(), stmts: vec![syn::Stmt::Expr(other.clone(), None)] },
            };
            for a in Self::assigned_vars(&blk) {
                if self.lookup(&a).is_some() {
                    self.dirty_captured.push(a);
                }
            }
        }
        self.closure_base.push(self.env.len());
        self.env.push(HashMap::new());
        self.bind(&name, arg_ty);
        let b = self.scoped(&cl.body);
        self.env.pop();
        self.closure_base.pop();
        self.dirty_captured.truncate(n_dirty);
        Ok((name, b?))
    }

    /// lift an expression in its own evaluation scope (wraps hoisted `?` operands around it)
    fn scoped(&mut self, e: &syn::Expr) -> R<Val> {
        self.hoist.push(Vec::new());
        let r = self.expr(e);
        let hs = self.hoist.pop().unwrap();
        let r = r?;
        Ok(self.wrap_hoists(hs, r))
    }
    fn wrap_hoists(&self, hs: Vec<(String, Val)>, r: Val) -> Val {
        let mut text = r.text;
        let mut ty = r.ty.clone();
        for (name, val) in hs.into_iter().rev() {
            if name == "@@capture" {
                // L17c: the observed call argument is the result; whatever was computed inside is dropped
                if self.ret_ty.starts_with("Result<") {
                    text = format!("{{ let cap__ = {}; Ok::<{}, LErr>(cap__) }}", val.text, val.ty);
                    ty = format!("Result<{}, LErr>", val.ty);
                } else {
                    text = format!("{{ let cap__ = {}; cap__ }}", val.text);
                    ty = val.ty.clone();
                }
                continue;
            }
            text = format!("(match {} {{ Err(e__) => Err(e__), Ok({name}) => {text} }})", val.text);
        }
        v(text, &ty)
    }

    fn expr(&mut self, e: &syn::Expr) -> R<Val> {
        use syn::Expr;
        match e {
            Expr::Paren(p) => {
                let x = self.expr(&p.expr)?;
                Ok(v(format!("({})", x.text), &x.ty))
            }
            Expr::Group(g) => self.expr(&g.expr),
            Expr::Lit(l) => match &l.lit {
                syn::Lit::Float(f) => Ok(v(float_lit(&f.to_string())?, "real")),
                syn::Lit::Int(i) => {
                    if i.suffix() == "f64" {
                        Ok(v(float_lit(i.base10_digits())?, "real"))
                    } else {
                        Ok(v(format!("{}int", i.base10_digits()), "int"))
                    }
                }
                syn::Lit::Bool(b) => Ok(v(if b.value { "true" } else { "false" }, "bool")),
                _ => unsupported("literal", e),
            },
            Expr::Path(p) => {
                let s = Self::path_str(&p.path);
                if s == "self" {
                    let t = self.lookup("self_").ok_or("self outside method")?;
                    return Ok(v("self_", &t));
                }
                if p.path.segments.len() == 1 {
                    if let Some(t) = self.lookup(&s) {
                        if self.dirty_captured.contains(&s) && self.captured(&s) {
                            return Err(format!("construct outside rule list (lift): read of `{s}`, which a closure that runs more than once mutates"));
                        }
                        return Ok(v(s, &t));
                    }
                }
                // a unit-carrying constant of the quantity crate (`quantity::RGAS`): an uninterpreted real
                if p.path.segments.len() == 2 && p.path.segments[0].ident == "quantity" {
                    let n = p.path.segments[1].ident.to_string();
                    let decl = format!("pub uninterp spec fn K_QUANTITY_{n}() -> real;");
                    if !self.havocs.contains(&decl) {
                        self.havocs.push(decl);
                    }
                    self.note("L21", e.span(), &format!("`quantity::{n}` lifted to an uninterpreted real constant"));
                    return Ok(v(format!("K_QUANTITY_{n}()"), "real"));
                }
                // constants (a module constant of the same name takes precedence when `const_values` is set)
                match s.as_str() {
                    _ if self.consts.contains_key(&s) => {}
                    "PI" | "std::f64::consts::PI" => return Ok(v("PI()", "real")),
                    "FRAC_PI_3" => return Ok(v("(PI() / 3real)", "real")),
                    "FRAC_PI_6" => return Ok(v("(PI() / 6real)", "real")),
                    "FRAC_PI_2" => return Ok(v("(PI() / 2real)", "real")),
                    "RGAS" => return Ok(v("RGAS()", "real")),
                    // A11: there is no NaN over the reals - `f64::NAN` as a *value* (a marker for "no result") is one
                    // uninterpreted real constant
                    "f64::EPSILON" => return Ok(v("(1real / 4503599627370496real)", "real")), // 2^-52, exact
                    "f64::NAN" => {
                        self.note("A11", e.span(), "`f64::NAN` as a value lifted to the uninterpreted constant r_nan()");
                        return Ok(v("r_nan()", "real"));
                    }
                    "None" => return Ok(v("None", "Option<?>")),
                    _ => {}
                }
                // enum variants / unit structs: keep the path, `Self` resolved
                let mut segs: Vec<String> = p.path.segments.iter().map(|s| s.ident.to_string()).collect();
                if segs[0] == "Self" {
                    segs[0] = self.self_ty.clone().ok_or("Self outside impl")?;
                }
                if segs.len() >= 2 {
                    if let Some(t) = self.reg.types.get(&segs[0]) {
                        if t.starts_with("L_") {
                            segs[0] = t.clone();
                        }
                    }
                    let ty = segs[segs.len() - 2].clone();
                    return Ok(v(segs.join("::"), &ty));
                }
                if false {
                }
                // bare variant imported by glob (e.g. DV, DT)
                if let Some((full, ty, _)) = self.reg.variants.get(&s) {
                    return Ok(v(full.clone(), ty));
                }
                // L21: a module constant (SCREAMING_CASE, single segment) is an uninterpreted real constant
                if p.path.segments.len() == 1 && (s.len() > 1 || self.consts.contains_key(&s) || self.const_tables.contains(&s)) && s.chars().all(|c| c.is_ascii_uppercase() || c.is_ascii_digit() || c == '_') {
                    // `const_values` (directive flag): a module constant whose initialiser is made of literals, other
                    // constants and arithmetic keeps its value
                    if let Some(init) = self.consts.get(&s).cloned() {
                        if !self.const_stack.contains(&s) {
                            self.const_stack.push(s.clone());
                            let saved_env = std::mem::replace(&mut self.env, vec![HashMap::new()]);
                            let val = self.expr(&init);
                            self.env = saved_env;
                            self.const_stack.pop();
                            if let Ok(val) = val {
                                if val.ty == "RArr" {
                                    // a constant table (`const A: [f64; 7] = [..]`): an array constant with its entries
                                    let decl = format!("pub open spec fn K_{s}() -> RArr {{ {} }}", val.text);
                                    if !self.havocs.contains(&decl) {
                                        self.havocs.push(decl);
                                    }
                                    self.note("L21", e.span(), &format!("module constant table `{s}` lifted with its entries"));
                                    return Ok(v(format!("K_{s}()"), "RArr"));
                                }
                                if val.ty == "real" {
                                    // a literal value is hidden behind `reveal` (big rationals make non-linear queries
                                    // explode); relations between constants (`T0_2 = T0 * T0`) stay visible
                                    let is_lit = Self::only_literals(&init);
                                    let decl = format!("{}pub open spec fn K_{s}() -> real {{ {} }}", if is_lit { "#[verifier::opaque] " } else { "" }, val.text);
                                    if !self.havocs.contains(&decl) {
                                        self.havocs.push(decl);
                                    }
                                    self.note("L21", e.span(), &format!("module constant `{s}` lifted with its value"));
                                    return Ok(v(format!("K_{s}()"), "real"));
                                }
                            }
                        }
                    }
                    if self.const_tables.contains(&s) {
                        // L21b: a constant table without `const_values` is one uninterpreted array constant
                        let decl = format!("pub uninterp spec fn K_{s}() -> RArr;");
                        if !self.havocs.contains(&decl) {
                            self.havocs.push(decl);
                        }
                        self.note("L21b", e.span(), &format!("module constant table `{s}` lifted to an uninterpreted array constant"));
                        return Ok(v(format!("K_{s}()"), "RArr"));
                    }
                    let decl = format!("pub uninterp spec fn K_{s}() -> real;");
                    if !self.havocs.contains(&decl) {
                        self.havocs.push(decl);
                    }
                    self.note("L21", e.span(), &format!("module constant `{s}` lifted to an uninterpreted real constant"));
                    return Ok(v(format!("K_{s}()"), "real"));
                }
                Err(format!("construct outside rule list (lift): unknown name `{s}`"))
            }
            Expr::Unary(u) => {
                let x = self.expr(&u.expr)?;
                match u.op {
                    syn::UnOp::Neg(_) => {
                        if x.ty == "RArr" {
                            let (pre, xn, post) = self.arr_bind(&x);
                            return Ok(v(format!("{pre}RArr {{ len: {0}.len, at: |i__: int| -(({0}.at)(i__)) }}{post}", xn), "RArr"));
                        }
                        Ok(v(format!("(-({}))", x.text), &x.ty))
                    }
                    syn::UnOp::Not(_) => Ok(v(format!("(!({}))", x.text), "bool")),
                    syn::UnOp::Deref(_) => Ok(x),
                    _ => unsupported("unary operator", e),
                }
            }
            Expr::Reference(r) => self.expr(&r.expr),
            Expr::Binary(b) => {
                let l = self.expr(&b.left)?;
                let r = self.expr(&b.right)?;
                self.binop(&b.op, l, r, e)
            }
            Expr::Cast(c) => {
                let x = self.expr(&c.expr)?;
                let t = lift_type(self.reg, &c.ty, self.self_ty.as_deref())?;
                match (x.ty.as_str(), t.as_str()) {
                    ("int", "real") => Ok(v(format!("(({}) as real)", x.text), "real")),
                    (a, b) if a == b => Ok(x),
                    _ => unsupported("cast", e),
                }
            }
            Expr::Field(f) => {
                let base = self.expr(&f.base)?;
                match &f.member {
                    syn::Member::Named(n) => {
                        let name = n.to_string();
                        let sname = base.ty.strip_prefix("L_").unwrap_or(&base.ty).to_string();
                        if let Some(fields) = self.reg.structs.get(&sname) {
                            if let Some((_, t)) = fields.iter().find(|(k, _)| *k == name) {
                                return Ok(v(format!("{}.{name}", base.text), t));
                            }
                        }
                        // a named field of an opaque record: the declared accessor `name(T)`
                        if let Some((ptys, rty)) = self.reg.fns.get(&name).cloned() {
                            if ptys.len() == 1 && ptys[0] == base.ty {
                                return Ok(v(format!("crate::{name}({})", base.text), &rty));
                            }
                        }
                        Err(format!("construct outside rule list (lift): field `{name}` of type {}", base.ty))
                    }
                    syn::Member::Unnamed(i) => {
                        // `.k` of an opaque record (a tuple struct): the declared extern `field_k(T)`
                        if !base.ty.starts_with('(') {
                            let key = format!("field_{}", i.index);
                            if let Some((ptys, rty)) = self.reg.fns.get(&key).cloned() {
                                if ptys.len() == 1 && ptys[0] == base.ty {
                                    return Ok(v(format!("crate::{key}({})", base.text), &rty));
                                }
                            }
                            return Err(format!("construct outside rule list (lift): tuple field .{} of type {}", i.index, base.ty));
                        }
                        // tuple field: type from "(a, b)" text
                        let inner = base.ty.trim_start_matches('(').trim_end_matches(')');
                        let parts = split_top(inner);
                        let t = parts.get(i.index as usize).cloned().unwrap_or_else(|| "?".into());
                        Ok(v(format!("{}.{}", base.text, i.index), t.trim()))
                    }
                }
            }
            Expr::Index(ix) => {
                let a = self.expr(&ix.expr)?;
                if let Expr::Array(arr) = &*ix.index {
                    // L9d: a three-dimensional table `a3[[i, j, k]]`
                    if arr.elems.len() == 3 && a.ty == "RArr3" {
                        let i = self.expr(&arr.elems[0])?;
                        let j = self.expr(&arr.elems[1])?;
                        let k = self.expr(&arr.elems[2])?;
                        return Ok(v(format!("({}.at)({}, {}, {})", a.text, i.text, j.text, k.text), "real"));
                    }
                    if arr.elems.len() == 2 && a.ty == "RArr2" {
                        let i = self.expr(&arr.elems[0])?;
                        let j = self.expr(&arr.elems[1])?;
                        return Ok(v(format!("({}.at)({}, {})", a.text, i.text, j.text), "real"));
                    }
                }
                if let Expr::Tuple(tp) = &*ix.index {
                    if tp.elems.len() == 2 && (a.ty == "RArr2" || a.ty == "OArr2") {
                        let i = self.expr(&tp.elems[0])?;
                        let j = self.expr(&tp.elems[1])?;
                        let et = if a.ty == "RArr2" { "real" } else { "Rec" };
                        return Ok(v(format!("({}.at)({}, {})", a.text, i.text, j.text), et));
                    }
                }
                // a fixed-size array of records is a tuple: `x[0]` is `x.0`
                if a.ty.starts_with('(') {
                    if let Expr::Lit(syn::ExprLit { lit: syn::Lit::Int(n), .. }) = &*ix.index {
                        let k: usize = n.base10_parse().map_err(|_| "index".to_string())?;
                        let inner = a.ty.trim_start_matches('(').trim_end_matches(')');
                        let parts = split_top(inner);
                        if let Some(t) = parts.get(k) {
                            return Ok(v(format!("{}.{k}", a.text), t.trim()));
                        }
                    }
                }
                let i = self.expr(&ix.index)?;
                self.elem(&a, &i.text)
            }
            Expr::If(i) => {
                if matches!(&*i.cond, Expr::Let(_)) {
                    return self.if_let(i);
                }
                let c = self.expr(&i.cond)?;
                let t = self.block_scoped(&i.then_branch)?;
                let Some((_, eb)) = &i.else_branch else { return unsupported("if without else in value position", e) };
                let f = self.scoped(eb)?;
                let mut tf = [t, f];
                Self::cap_unify(&mut tf);
                let [t, f] = tf;
                let ty = if t.ty == f.ty || f.ty.contains('?') { t.ty.clone() } else if t.ty.contains('?') { f.ty.clone() } else {
                    return Err(format!("construct outside rule list (lift): if branches of types {} / {}", t.ty, f.ty));
                };
                Ok(v(format!("(if {} {{ {} }} else {{ {} }})", c.text, t.text, f.text), &ty))
            }
            Expr::Block(b) => self.block_scoped(&b.block),
            Expr::Match(m) => self.match_expr(m, None),
            Expr::Tuple(t) => {
                let vs: R<Vec<Val>> = t.elems.iter().map(|x| self.expr(x)).collect();
                let vs = vs?;
                Ok(v(
                    format!("({})", vs.iter().map(|x| x.text.clone()).collect::<Vec<_>>().join(", ")),
                    &format!("({})", vs.iter().map(|x| x.ty.clone()).collect::<Vec<_>>().join(", ")),
                ))
            }
            Expr::Struct(s) if s.path.segments.len() >= 2 && {
                // `Enum::V { f: e, .. }` of a lifted enum with struct variants (registered by lenum as `L_Enum::V{}`)
                let mut segs: Vec<String> = s.path.segments.iter().map(|x| x.ident.to_string()).collect();
                if segs[0] == "Self" { if let Some(st) = &self.self_ty { segs[0] = st.clone(); } }
                if let Some(t) = self.reg.types.get(&segs[0]) { if t.starts_with("L_") { segs[0] = t.clone(); } }
                self.reg.types.contains_key(&format!("{}{{}}", segs.join("::")))
            } => {
                let mut segs: Vec<String> = s.path.segments.iter().map(|x| x.ident.to_string()).collect();
                if segs[0] == "Self" { if let Some(st) = &self.self_ty { segs[0] = st.clone(); } }
                if let Some(t) = self.reg.types.get(&segs[0]) { if t.starts_with("L_") { segs[0] = t.clone(); } }
                let full = segs.join("::");
                let enum_ty = segs[..segs.len() - 1].join("::");
                let mut parts = Vec::new();
                for fv in &s.fields {
                    let syn::Member::Named(n) = &fv.member else { return unsupported("tuple struct literal", e) };
                    let x = self.expr(&fv.expr)?;
                    parts.push(format!("{n}: {}", x.text));
                }
                Ok(v(format!("{full} {{ {} }}", parts.join(", ")), &enum_ty))
            }
            Expr::Struct(s) => {
                let mut name = Self::path_str(&s.path);
                if name == "Self" {
                    name = self.self_ty.clone().ok_or("Self outside impl")?;
                }
                let lname = name.rsplit("::").next().unwrap().to_string();
                let fields = self.reg.structs.get(&lname).ok_or(format!("construct outside rule list (lift): struct literal of `{name}` (no //@lstruct)"))?.clone();
                let mut parts = Vec::new();
                for fv in &s.fields {
                    let syn::Member::Named(n) = &fv.member else { return unsupported("tuple struct literal", e) };
                    if !fields.iter().any(|(k, _)| n == k) {
                        self.note("L10", fv.span(), &format!("field `{n}` is not part of the lifted struct: initialiser dropped"));
                        continue;
                    }
                    let x = self.expr(&fv.expr)?;
                    let want = fields.iter().find(|(k, _)| n == k).map(|(_, t)| t.clone()).unwrap_or_default();
                    if want != x.ty && !x.ty.contains('?') {
                        return Err(format!("construct outside rule list (lift): field {n}: {} initialised with {}", want, x.ty));
                    }
                    parts.push(format!("{n}: {}", x.text));
                }
                if s.rest.is_some() {
                    return unsupported("struct update syntax", e);
                }
                Ok(v(format!("L_{lname} {{ {} }}", parts.join(", ")), &format!("L_{lname}")))
            }
            Expr::Try(t) => {
                let inner = self.expr(&t.expr)?;
                let okty = inner
                    .ty
                    .strip_prefix("Result<")
                    .map(|s| split_top(&s[..s.len() - 1])[0].trim().to_string())
                    .ok_or(format!("construct outside rule list (lift): `?` on a value of type {}", inner.ty))?;
                let name = self.fresh("q");
                self.note("L16", e.span(), "`?` lifted to a match on the Result");
                self.hoist.last_mut().unwrap().push((name.clone(), inner));
                Ok(v(name, &okty))
            }
            Expr::Call(c) => self.call(c, e),
            Expr::MethodCall(m) => self.method(m, e),
            Expr::Macro(m) => {
                let name = Self::path_str(&m.mac.path);
                if name == "vec" {
                    // vec![e; n]
                    let ts = m.mac.tokens.to_string();
                    if let Some((a, b)) = ts.rsplit_once(';') {
                        let ea: syn::Expr = syn::parse_str(a).map_err(|e| e.to_string())?;
                        let eb: syn::Expr = syn::parse_str(b).map_err(|e| e.to_string())?;
                        let x = self.expr(&ea)?;
                        let n = self.expr(&eb)?;
                        if x.ty == "real" && n.ty == "int" {
                            return Ok(v(format!("RArr {{ len: {}, at: |i__: int| {} }}", n.text, x.text), "RArr"));
                        }
                    }
                }
                if name == "__vx_havoc" {
                    // (synthetic, closure-as-function lifts) a variable the closure assigns: its value at closure entry
                    // is whatever earlier invocations left there - an uninterpreted function of the inputs (L6)
                    let var = m.mac.tokens.to_string().trim().to_string();
                    let ty = self.lookup(&var).ok_or(format!("havoc of unbound `{var}`"))?;
                    let hname = format!("{}__entry_{var}", self.fn_name);
                    let decl = format!(
                        "pub uninterp spec fn {hname}({}) -> {ty};",
                        self.params.iter().map(|(n, t)| format!("{n}: {t}")).collect::<Vec<_>>().join(", ")
                    );
                    if !self.havocs.contains(&decl) {
                        self.havocs.push(decl);
                    }
                    self.note("L6", e.span(), &format!("`{var}` is assigned by the closure: its value at closure entry is havoc'd"));
                    let plist: Vec<String> = self.params.iter().map(|(n, _)| n.clone()).collect();
                    return Ok(v(format!("{hname}({})", plist.join(", ")), &ty));
                }
                if name == "__vx_zeros_like" {
                    // (synthetic, L24b) the additive identity of an accumulator: 0 or an array of zeros of its length
                    let var = m.mac.tokens.to_string().trim().to_string();
                    let ty = self.lookup(&var).ok_or(format!("zeros_like of unbound `{var}`"))?;
                    return match ty.as_str() {
                        "real" => Ok(v("0real", "real")),
                        "RArr" => Ok(v(format!("RArr {{ len: {var}.len, at: |i__: int| 0real }}"), "RArr")),
                        _ => unsupported("accumulator type", e),
                    };
                }
                if name == "unreachable" {
                    return Ok(v("arbitrary()", "?"));
                }
                unsupported("macro", e)
            }
            Expr::Array(a) => {
                // [e0, e1, ..] -> index function over a fixed length
                let mut vals = Vec::new();
                let mut all: Vec<Val> = Vec::new();
                for x in &a.elems {
                    all.push(self.expr(x)?);
                }
                if !all.is_empty() && all.iter().all(|t| t.ty != "real" && t.ty != "int") {
                    // a fixed-size array of records is a tuple
                    let tys: Vec<String> = all.iter().map(|t| t.ty.clone()).collect();
                    let txt: Vec<String> = all.iter().map(|t| t.text.clone()).collect();
                    return Ok(v(format!("({})", txt.join(", ")), &format!("({})", tys.join(", "))));
                }
                if !all.is_empty() && all.iter().all(|t| t.ty == "int") {
                    // an index list `[i, j]`
                    let txt: Vec<String> = all.iter().map(|t| t.text.clone()).collect();
                    return Ok(v(format!("seq![{}]", txt.join(", ")), "Seq<int>"));
                }
                for t in all {
                    if t.ty != "real" {
                        return unsupported("array literal of non-real elements", e);
                    }
                    vals.push(t.text);
                }
                let n = vals.len();
                let mut text = String::from("arbitrary()");
                for (k, t) in vals.iter().enumerate().rev() {
                    text = format!("if i__ == {k}int {{ {t} }} else {{ {text} }}");
                }
                self.note("L8", e.span(), "array literal lifted to an index function");
                Ok(v(format!("RArr {{ len: {n}int, at: |i__: int| {text} }}"), "RArr"))
            }
            Expr::Closure(_) => unsupported("closure in value position", e),
            Expr::Return(_) => unsupported("return in expression position (L14 handles statement position only)", e),
            Expr::Range(_) => unsupported("range in value position", e),
            _ => unsupported("expression", e),
        }
    }

    fn if_let(&mut self, i: &syn::ExprIf) -> R<Val> {
        let syn::Expr::Let(l) = &*i.cond else { unreachable!() };
        let scrut = self.expr(&l.expr)?;
        self.env.push(HashMap::new());
        let pat = self.pattern(&l.pat, &scrut.ty)?;
        let t = self.block_scoped(&i.then_branch);
        self.env.pop();
        let t = t?;
        let Some((_, eb)) = &i.else_branch else { return unsupported("if-let without else in value position", &i.cond) };
        let f = self.scoped(eb)?;
        let mut tf = [t, f];
        Self::cap_unify(&mut tf);
        let [t, f] = tf;
        Ok(v(format!("(match {} {{ {pat} => {{ {} }}, _ => {{ {} }} }})", scrut.text, t.text, f.text), &t.ty))
    }

    /// lift a pattern, binding its variables with types derived from the scrutinee type
    fn pattern(&mut self, p: &syn::Pat, ty: &str) -> R<String> {
        match p {
            syn::Pat::Wild(_) => Ok("_".into()),
            syn::Pat::Ident(i) => {
                // a bare identifier could be a glob-imported unit variant; treat lower-case as binding
                let n = i.ident.to_string();
                if let Some((full, vty, _)) = self.reg.variants.get(&n) {
                    // `None` / `Some` of an Option scrutinee are not the like-named variants of a lifted enum
                    if !(ty.starts_with("Option<") && (n == "None" || n == "Some")) || vty.starts_with("Option") {
                        return Ok(full.clone());
                    }
                }
                if n.chars().next().map(|c| c.is_uppercase()).unwrap_or(false) {
                    return Ok(n);
                }
                self.bind(&n, ty);
                Ok(n)
            }
            syn::Pat::Reference(r) => self.pattern(&r.pat, ty),
            syn::Pat::Lit(l) => {
                let x = self.expr(&syn::Expr::Lit(syn::ExprLit { attrs: vec![], lit: l.lit.clone() }))?;
                Ok(x.text)
            }
            syn::Pat::Tuple(t) => {
                let inner = ty.trim().strip_prefix('(').and_then(|s| s.strip_suffix(')')).unwrap_or("");
                let parts = split_top(inner);
                let mut out = Vec::new();
                for (k, el) in t.elems.iter().enumerate() {
                    let pt = parts.get(k).map(|s| s.trim().to_string()).unwrap_or_else(|| "?".into());
                    out.push(self.pattern(el, &pt)?);
                }
                Ok(format!("({})", out.join(", ")))
            }
            syn::Pat::Slice(sl) if ty.trim().starts_with('(') => {
                // `[a, b]` on a fixed-size array of records (a tuple)
                let inner = ty.trim().strip_prefix('(').and_then(|s| s.strip_suffix(')')).unwrap_or("");
                let parts = split_top(inner);
                let mut out = Vec::new();
                for (k, el) in sl.elems.iter().enumerate() {
                    let pt = parts.get(k).map(|s| s.trim().to_string()).unwrap_or_else(|| "?".into());
                    out.push(self.pattern(el, &pt)?);
                }
                Ok(format!("({})", out.join(", ")))
            }
            syn::Pat::TupleStruct(ts) => {
                let mut segs: Vec<String> = ts.path.segments.iter().map(|s| s.ident.to_string()).collect();
                if segs[0] == "Self" {
                    segs[0] = self.self_ty.clone().ok_or("Self outside impl")?;
                }
                if segs.len() >= 2 {
                    if let Some(t) = self.reg.types.get(&segs[0]) {
                        if t.starts_with("L_") {
                            segs[0] = t.clone();
                        }
                    }
                }
                let last = segs.last().unwrap().clone();
                if segs.len() == 1 {
                    if let Some((full, _, ptys)) = self.reg.variants.get(&last).cloned() {
                        let mut out = Vec::new();
                        for (k, el) in ts.elems.iter().enumerate() {
                            out.push(self.pattern(el, ptys.get(k).map(|s| s.as_str()).unwrap_or("?"))?);
                        }
                        return Ok(format!("{full}({})", out.join(", ")));
                    }
                }
                let inner_tys: Vec<String> = match last.as_str() {
                    "Some" => vec![ty.strip_prefix("Option<").map(|s| s[..s.len() - 1].to_string()).unwrap_or("?".into())],
                    "Ok" => vec![ty.strip_prefix("Result<").map(|s| split_top(&s[..s.len() - 1])[0].trim().to_string()).unwrap_or("?".into())],
                    "Err" => vec![ty.strip_prefix("Result<").map(|s| split_top(&s[..s.len() - 1]).get(1).map(|x| x.trim().to_string()).unwrap_or("?".into())).unwrap_or("?".into())],
                    _ => {
                        // enum variant payloads: declared through //@ltype Enum::Variant => (t1, t2)
                        let key = segs.join("::");
                        match self.reg.types.get(&key) {
                            Some(t) => split_top(t.trim().trim_start_matches('(').trim_end_matches(')')).iter().map(|s| s.trim().to_string()).collect(),
                            None => ts.elems.iter().map(|_| "?".to_string()).collect(),
                        }
                    }
                };
                let mut out = Vec::new();
                for (k, el) in ts.elems.iter().enumerate() {
                    out.push(self.pattern(el, inner_tys.get(k).map(|s| s.as_str()).unwrap_or("?"))?);
                }
                Ok(format!("{}({})", segs.join("::"), out.join(", ")))
            }
            syn::Pat::Struct(ps) => {
                // `Enum::V { f, g: pat, .. }` of a lifted enum with struct variants
                let mut segs: Vec<String> = ps.path.segments.iter().map(|s| s.ident.to_string()).collect();
                if segs[0] == "Self" {
                    segs[0] = self.self_ty.clone().ok_or("Self outside impl")?;
                }
                if segs.len() >= 2 {
                    if let Some(t) = self.reg.types.get(&segs[0]) {
                        if t.starts_with("L_") {
                            segs[0] = t.clone();
                        }
                    }
                }
                let key = format!("{}{{}}", segs.join("::"));
                let Some(ftys) = self.reg.types.get(&key).cloned() else { return unsupported("struct pattern of a type that is not a lifted enum variant", p) };
                let ftys: Vec<(String, String)> = ftys.split(';').filter_map(|kv| kv.split_once(':').map(|(a, b)| (a.to_string(), b.to_string()))).collect();
                let mut out = Vec::new();
                for fp in &ps.fields {
                    let syn::Member::Named(id) = &fp.member else { return unsupported("struct pattern member", p) };
                    let fname = id.to_string();
                    let fty = ftys.iter().find(|(n, _)| *n == fname).map(|(_, t)| t.clone()).unwrap_or("?".into());
                    let sub = self.pattern(&fp.pat, &fty)?;
                    out.push(format!("{fname}: {sub}"));
                }
                if ps.rest.is_some() || out.len() < ftys.len() {
                    out.push("..".into());
                }
                Ok(format!("{} {{ {} }}", segs.join("::"), out.join(", ")))
            }
            syn::Pat::Path(pp) => {
                let mut segs: Vec<String> = pp.path.segments.iter().map(|s| s.ident.to_string()).collect();
                if segs[0] == "Self" {
                    segs[0] = self.self_ty.clone().ok_or("Self outside impl")?;
                }
                if segs.len() >= 2 {
                    if let Some(t) = self.reg.types.get(&segs[0]) {
                        if t.starts_with("L_") {
                            segs[0] = t.clone();
                        }
                    }
                }
                Ok(segs.join("::"))
            }
            syn::Pat::Or(o) => {
                let v: R<Vec<String>> = o.cases.iter().map(|c| self.pattern(c, ty)).collect();
                Ok(v?.join(" | "))
            }
            _ => unsupported("pattern", p),
        }
    }

    fn match_expr(&mut self, m: &syn::ExprMatch, cont: Option<&dyn Fn(&mut Self) -> R<Val>>) -> R<Val> {
        let scrut = self.expr(&m.expr)?;
        // integer scrutinee with literal patterns → if-chain (L7)
        if scrut.ty == "int" {
            let mut text = String::new();
            let mut ty = String::new();
            for (k, arm) in m.arms.iter().enumerate() {
                let body = self.arm_body(&arm.body, cont)?;
                if ty.is_empty() || ty.contains('?') {
                    ty = body.ty.clone();
                }
                match &arm.pat {
                    syn::Pat::Lit(l) => {
                        let lit = self.expr(&syn::Expr::Lit(syn::ExprLit { attrs: vec![], lit: l.lit.clone() }))?;
                        text.push_str(&format!("{}if {} == {} {{ {} }}", if k > 0 { " else " } else { "" }, scrut.text, lit.text, body.text));
                    }
                    syn::Pat::Wild(_) => {
                        text.push_str(&format!(" else {{ {} }}", body.text));
                    }
                    p => return unsupported("integer match pattern", p),
                }
            }
            return Ok(v(format!("({text})"), &ty));
        }
        let mut arms = Vec::new();
        let mut ty = String::new();
        for arm in &m.arms {
            if arm.guard.is_some() {
                return unsupported("match guard", &arm.pat);
            }
            self.env.push(HashMap::new());
            let p = self.pattern(&arm.pat, &scrut.ty);
            let b = match p {
                Ok(_) => self.arm_body(&arm.body, cont),
                Err(ref e) => Err(e.clone()),
            };
            self.env.pop();
            let (p, b) = (p?, b?);
            arms.push((p, b));
        }
        let mut bodies: Vec<Val> = arms.iter().map(|(_, b)| b.clone()).collect();
        Self::cap_unify(&mut bodies);
        for b in &bodies {
            if ty.is_empty() || ty.contains('?') {
                ty = b.ty.clone();
            }
        }
        let arms: Vec<String> = arms.iter().zip(bodies.iter()).map(|((p, _), b)| format!("{p} => {{ {} }}", b.text)).collect();
        Ok(v(format!("(match {} {{ {} }})", scrut.text, arms.join(", ")), &ty))
    }

    /// body of a match arm / branch; with a continuation (L14) a body that does not `return`
    /// continues with the rest of the enclosing statement list
    fn arm_body(&mut self, body: &syn::Expr, cont: Option<&dyn Fn(&mut Self) -> R<Val>>) -> R<Val> {
        match cont {
            None => self.scoped(body),
            Some(k) => match body {
                syn::Expr::Return(r) => {
                    let e = r.expr.as_ref().ok_or("return without value")?;
                    self.scoped(e)
                }
                syn::Expr::Block(b) => self.stmts_with_cont(&b.block.stmts, Some(k)),
                syn::Expr::Tuple(t) if t.elems.is_empty() => k(self),
                _ => unsupported("match arm before continuation", body),
            },
        }
    }

    fn block_scoped(&mut self, b: &syn::Block) -> R<Val> {
        self.env.push(HashMap::new());
        self.in_value += 1;
        let r = self.stmts_with_cont(&b.stmts, None);
        self.in_value -= 1;
        self.env.pop();
        r
    }

    fn contains_return(e: &syn::Expr) -> bool {
        struct F(bool);
        impl<'ast> syn::visit::Visit<'ast> for F {
            fn visit_expr_return(&mut self, _: &'ast syn::ExprReturn) {
                self.0 = true;
            }
            fn visit_expr_closure(&mut self, _: &'ast syn::ExprClosure) {}
        }
        let mut f = F(false);
        syn::visit::Visit::visit_expr(&mut f, e);
        f.0
    }

    /// L27: recognise `for (i, &j) in <list>.iter().enumerate() { <arr>.set(j, e); }` / `{ <arr>[j] = e; }` with `arr` a
    /// local real array; returns (arr, i, j, list expression, e)
    fn scatter_loop(&self, f: &syn::ExprForLoop) -> Option<(String, String, String, syn::Expr, syn::Expr, syn::Expr)> {
        let syn::Pat::Tuple(tp) = &*f.pat else { return None };
        if tp.elems.len() != 2 {
            return None;
        }
        let name_of = |p: &syn::Pat| -> Option<String> {
            match p {
                syn::Pat::Ident(i) => Some(i.ident.to_string()),
                syn::Pat::Reference(r) => match &*r.pat {
                    syn::Pat::Ident(i) => Some(i.ident.to_string()),
                    _ => None,
                },
                _ => None,
            }
        };
        let (iv, jv) = (name_of(&tp.elems[0])?, name_of(&tp.elems[1])?);
        let syn::Expr::MethodCall(en) = &*f.expr else { return None };
        if en.method != "enumerate" {
            return None;
        }
        let syn::Expr::MethodCall(it) = &*en.receiver else { return None };
        if it.method != "iter" {
            return None;
        }
        if f.body.stmts.len() != 1 {
            return None;
        }
        let is_j = |e: &syn::Expr| -> bool {
            match e {
                syn::Expr::Path(p) => p.path.is_ident(&jv),
                syn::Expr::Unary(u) if matches!(u.op, syn::UnOp::Deref(_)) => matches!(&*u.expr, syn::Expr::Path(p) if p.path.is_ident(&jv)),
                _ => false,
            }
        };
        let _ = &is_j;
        let (arr, idx, val) = match &f.body.stmts[0] {
            syn::Stmt::Expr(syn::Expr::MethodCall(m), _) if m.method == "set" && m.args.len() == 2 => {
                let syn::Expr::Path(p) = &*m.receiver else { return None };
                (p.path.get_ident()?.to_string(), m.args[0].clone(), m.args[1].clone())
            }
            syn::Stmt::Expr(syn::Expr::Assign(a), _) => {
                let syn::Expr::Index(ix) = &*a.left else { return None };
                let syn::Expr::Path(p) = &*ix.expr else { return None };
                (p.path.get_ident()?.to_string(), (*ix.index).clone(), (*a.right).clone())
            }
            _ => return None,
        };
        if Self::idents_of(&idx).contains(&arr) {
            return None;
        }
        if self.lookup(&arr).as_deref() != Some("RArr") {
            return None;
        }
        // the stored value must not read the array being written
        if Self::idents_of(&val).contains(&arr) {
            return None;
        }
        Some((arr, iv, jv, (*it.receiver).clone(), idx, val))
    }
    /// the summand of a lifted sum as a named spec function of the variables it mentions (so that lemmas can speak
    /// about one term): returns the closure text `|i: int| name(captured.., i)`
    fn hoist_summand(&mut self, src_idents: &[String], iv: &str, body: &Val) -> String {
        let mut caps: Vec<(String, String)> = Vec::new();
        let mut seen: Vec<String> = vec![iv.to_string()];
        for fr in self.env.iter().rev() {
            let mut names: Vec<&String> = fr.keys().collect();
            names.sort();
            for n in names {
                if seen.contains(n) {
                    continue;
                }
                seen.push(n.clone());
                let mentioned = src_idents.contains(n) || (n == "self_" && src_idents.iter().any(|x| x == "self"));
                let ty = fr[n].clone();
                if mentioned && !ty.contains('?') && ty != "closure" {
                    caps.push((n.clone(), ty));
                }
            }
        }
        caps.sort();
        let k = self.havocs.iter().filter(|h| h.contains("__summand")).count();
        let name = format!("{}__summand{}", self.fn_name, k);
        let ps: Vec<String> = caps.iter().map(|(n, t)| format!("{n}: {t}")).chain(std::iter::once(format!("{iv}: int"))).collect();
        self.havocs.push(format!("pub open spec fn {name}({}) -> {} {{ {} }}", ps.join(", "), body.ty, body.text));
        let args: Vec<String> = caps.iter().map(|(n, _)| n.clone()).chain(std::iter::once(iv.to_string())).collect();
        format!("|{iv}: int| crate::{name}({})", args.join(", "))
    }
    /// a closure of the lifted code as a named spec function returning a `spec_fn` (so that lemmas can be applied to the
    /// very same term): returns the call `name(captured..)`
    fn hoist_closure(&mut self, kind: &str, src_idents: &[String], iv: &str, body: &Val) -> String {
        let mut caps: Vec<(String, String)> = Vec::new();
        let mut seen: Vec<String> = vec![iv.to_string()];
        for fr in self.env.iter().rev() {
            let mut names: Vec<&String> = fr.keys().collect();
            names.sort();
            for n in names {
                if seen.contains(n) {
                    continue;
                }
                seen.push(n.clone());
                let mentioned = src_idents.contains(n) || (n == "self_" && src_idents.iter().any(|x| x == "self"));
                let ty = fr[n].clone();
                if mentioned && !ty.contains('?') && ty != "closure" {
                    caps.push((n.clone(), ty));
                }
            }
        }
        caps.sort();
        let k = self.havocs.iter().filter(|h| h.contains(&format!("__{kind}"))).count();
        let name = format!("{}__{kind}{}", self.fn_name, k);
        let ps: Vec<String> = caps.iter().map(|(n, t)| format!("{n}: {t}")).collect();
        self.havocs.push(format!("pub open spec fn {name}({}) -> spec_fn(int) -> {} {{ |{iv}: int| {} }}", ps.join(", "), body.ty, body.text));
        let args: Vec<String> = caps.iter().map(|(n, _)| n.clone()).collect();
        format!("crate::{name}({})", args.join(", "))
    }
    fn idents_of(e: &impl ToTokens) -> Vec<String> {
        let mut out = Vec::new();
        fn walk(ts: proc_macro2::TokenStream, out: &mut Vec<String>) {
            for t in ts {
                match t {
                    proc_macro2::TokenTree::Ident(i) => out.push(i.to_string()),
                    proc_macro2::TokenTree::Group(g) => walk(g.stream(), out),
                    _ => {}
                }
            }
        }
        walk(e.to_token_stream(), &mut out);
        out
    }
    /// an expression made of numeric literals and arithmetic only
    fn only_literals(e: &syn::Expr) -> bool {
        match e {
            syn::Expr::Lit(_) => true,
            syn::Expr::Paren(p) => Self::only_literals(&p.expr),
            syn::Expr::Group(g) => Self::only_literals(&g.expr),
            syn::Expr::Unary(u) => Self::only_literals(&u.expr),
            syn::Expr::Binary(b) => Self::only_literals(&b.left) && Self::only_literals(&b.right),
            _ => false,
        }
    }
    /// is this statement-position `if` / `match` free of effects other than panicking (every branch is empty, `()` or a
    /// panic-class macro)?
    fn only_panics(e: &syn::Expr) -> bool {
        fn blk(b: &syn::Block) -> bool {
            b.stmts.iter().all(|s| match s {
                syn::Stmt::Expr(e, _) => ex(e),
                syn::Stmt::Macro(m) => mac(&m.mac),
                _ => false,
            })
        }
        fn mac(m: &syn::Macro) -> bool {
            let n = m.path.segments.last().map(|s| s.ident.to_string()).unwrap_or_default();
            ["panic", "unreachable", "unimplemented", "todo", "assert", "debug_assert", "assert_eq", "debug_assert_eq"].contains(&n.as_str())
        }
        fn ex(e: &syn::Expr) -> bool {
            match e {
                syn::Expr::Macro(m) => mac(&m.mac),
                syn::Expr::Tuple(t) => t.elems.is_empty(),
                syn::Expr::Block(b) => blk(&b.block),
                syn::Expr::Paren(p) => ex(&p.expr),
                syn::Expr::If(i) => blk(&i.then_branch) && i.else_branch.as_ref().map(|(_, e)| ex(e)).unwrap_or(true),
                syn::Expr::Match(m) => m.arms.iter().all(|a| ex(&a.body)),
                _ => false,
            }
        }
        matches!(e, syn::Expr::If(_) | syn::Expr::Match(_)) && ex(e)
    }
    /// L24: recognise `for i in a..b { let ..; ..; acc += e; }` with `acc` a real local bound outside the loop that the
    /// body does not otherwise mention; returns (acc, lets, e, a, b)
    fn accumulation_loop(&self, f: &syn::ExprForLoop) -> Option<(String, Vec<syn::Stmt>, syn::Expr, syn::Expr, syn::Expr)> {
        let syn::Pat::Ident(_) = &*f.pat else { return None };
        let mut range = &*f.expr;
        while let syn::Expr::Paren(p) = range {
            range = &p.expr;
        }
        let syn::Expr::Range(r) = range else { return None };
        if !matches!(r.limits, syn::RangeLimits::HalfOpen(_)) {
            return None;
        }
        let (lo, hi) = (r.start.as_ref()?, r.end.as_ref()?);
        let (last, lets) = f.body.stmts.split_last()?;
        if !lets.iter().all(|s| matches!(s, syn::Stmt::Local(_))) {
            return None;
        }
        let syn::Stmt::Expr(syn::Expr::Binary(b), _) = last else { return None };
        if !matches!(b.op, syn::BinOp::AddAssign(_)) {
            return None;
        }
        let syn::Expr::Path(p) = &*b.left else { return None };
        let acc = p.path.get_ident()?.to_string();
        if self.lookup(&acc).as_deref() != Some("real") {
            return None;
        }
        if Self::assigned_vars(&f.body) != vec![acc.clone()] {
            return None;
        }
        // the accumulator must not be read by the summand
        struct Ids(Vec<String>);
        impl<'ast> syn::visit::Visit<'ast> for Ids {
            fn visit_ident(&mut self, i: &'ast proc_macro2::Ident) {
                self.0.push(i.to_string());
            }
        }
        let mut ids = Ids(vec![]);
        for l in lets {
            syn::visit::Visit::visit_stmt(&mut ids, l);
        }
        syn::visit::Visit::visit_expr(&mut ids, &b.right);
        if ids.0.contains(&acc) {
            return None;
        }
        Some((acc, lets.to_vec(), (*b.right).clone(), (**lo).clone(), (**hi).clone()))
    }
    /// L24b: `for i in lo..hi { BODY }` where BODY consists of `let`s, `acc += e;` statements on outer real variables and
    /// nested loops of the same form, and the accumulators are not read: (accumulators, lo, hi)
    fn multi_accumulation_loop(&self, f: &syn::ExprForLoop) -> Option<(Vec<String>, syn::Expr, syn::Expr)> {
        let syn::Pat::Ident(_) = &*f.pat else { return None };
        let mut range = &*f.expr;
        while let syn::Expr::Paren(p) = range {
            range = &p.expr;
        }
        let syn::Expr::Range(r) = range else { return None };
        if !matches!(r.limits, syn::RangeLimits::HalfOpen(_)) {
            return None;
        }
        let (lo, hi) = (r.start.as_ref()?, r.end.as_ref()?);
        let accs = Self::assigned_vars(&f.body);
        if accs.is_empty() || !accs.iter().all(|a| matches!(self.lookup(a).as_deref(), Some("real") | Some("RArr"))) {
            return None;
        }
        fn shape_ok(b: &syn::Block, accs: &[String]) -> bool {
            b.stmts.iter().all(|st| match st {
                syn::Stmt::Local(l) => {
                    // a `let` must not mention an accumulator
                    let ids = Lifter::idents_of(l);
                    !accs.iter().any(|a| ids.contains(a))
                }
                syn::Stmt::Expr(syn::Expr::Binary(bin), _) if matches!(bin.op, syn::BinOp::AddAssign(_)) => {
                    let syn::Expr::Path(p) = &*bin.left else { return false };
                    let Some(id) = p.path.get_ident() else { return false };
                    let rhs = Lifter::idents_of(&bin.right);
                    accs.contains(&id.to_string()) && !accs.iter().any(|a| rhs.contains(a))
                }
                // `acc = acc + e;`
                syn::Stmt::Expr(syn::Expr::Assign(asg), _) => {
                    let syn::Expr::Path(p) = &*asg.left else { return false };
                    let Some(id) = p.path.get_ident() else { return false };
                    let syn::Expr::Binary(bin) = &*asg.right else { return false };
                    if !matches!(bin.op, syn::BinOp::Add(_)) {
                        return false;
                    }
                    let lhs_is_acc = matches!(&*bin.left, syn::Expr::Path(q) if q.path.get_ident() == Some(id));
                    let rhs = Lifter::idents_of(&bin.right);
                    accs.contains(&id.to_string()) && lhs_is_acc && !accs.iter().any(|a| rhs.contains(a))
                }
                syn::Stmt::Expr(syn::Expr::ForLoop(inner), _) => {
                    let mut rg = &*inner.expr;
                    while let syn::Expr::Paren(p) = rg {
                        rg = &p.expr;
                    }
                    let hdr = Lifter::idents_of(rg);
                    matches!(&*inner.pat, syn::Pat::Ident(_)) && matches!(rg, syn::Expr::Range(_)) && !accs.iter().any(|a| hdr.contains(a)) && shape_ok(&inner.body, accs)
                }
                _ => false,
            })
        }
        if !shape_ok(&f.body, &accs) {
            return None;
        }
        Some((accs, (**lo).clone(), (**hi).clone()))
    }
    fn assigned_vars(b: &syn::Block) -> Vec<String> {
        struct A(Vec<String>);
        impl<'ast> syn::visit::Visit<'ast> for A {
            fn visit_expr_assign(&mut self, a: &'ast syn::ExprAssign) {
                if let syn::Expr::Path(p) = &*a.left {
                    if let Some(i) = p.path.get_ident() {
                        if !self.0.contains(&i.to_string()) {
                            self.0.push(i.to_string());
                        }
                    }
                }
                syn::visit::visit_expr_assign(self, a);
            }
            fn visit_expr_binary(&mut self, b: &'ast syn::ExprBinary) {
                use syn::BinOp::*;
                if matches!(b.op, AddAssign(_) | SubAssign(_) | MulAssign(_) | DivAssign(_)) {
                    if let syn::Expr::Path(p) = &*b.left {
                        if let Some(i) = p.path.get_ident() {
                            if !self.0.contains(&i.to_string()) {
                                self.0.push(i.to_string());
                            }
                        }
                    }
                }
                syn::visit::visit_expr_binary(self, b);
            }
        }
        let mut a = A(vec![]);
        syn::visit::Visit::visit_block(&mut a, b);
        // a variable whose mutable view is taken in the loop (`x.lanes_mut(..)`, `x.iter_mut()`, `&mut x`) is assigned too
        struct M<'a>(&'a mut Vec<String>);
        impl<'ast, 'a> syn::visit::Visit<'ast> for M<'a> {
            fn visit_expr_method_call(&mut self, m: &'ast syn::ExprMethodCall) {
                let name = m.method.to_string();
                if name.ends_with("_mut") || name == "assign" || name == "fill" || name.ends_with("_inplace") || name == "push" || name == "set" {
                    if let syn::Expr::Path(p) = &*m.receiver {
                        if let Some(i) = p.path.get_ident() {
                            if !self.0.contains(&i.to_string()) {
                                self.0.push(i.to_string());
                            }
                        }
                    }
                }
                syn::visit::visit_expr_method_call(self, m);
            }
            fn visit_expr_reference(&mut self, r: &'ast syn::ExprReference) {
                if r.mutability.is_some() {
                    if let syn::Expr::Path(p) = &*r.expr {
                        if let Some(i) = p.path.get_ident() {
                            if !self.0.contains(&i.to_string()) {
                                self.0.push(i.to_string());
                            }
                        }
                    }
                }
                syn::visit::visit_expr_reference(self, r);
            }
        }
        syn::visit::Visit::visit_block(&mut M(&mut a.0), b);
        a.0
    }

    /// statements → nested spec `let`s; `cont` is what follows an enclosing statement (L14)
    fn stmts_with_cont(&mut self, stmts: &[syn::Stmt], cont: Option<&dyn Fn(&mut Self) -> R<Val>>) -> R<Val> {
        self.hoist.push(Vec::new());
        let r = self.stmts_inner(stmts, cont);
        let hs = self.hoist.pop().unwrap();
        let r = r?;
        Ok(self.wrap_hoists(hs, r))
    }

    fn stmts_inner(&mut self, stmts: &[syn::Stmt], cont: Option<&dyn Fn(&mut Self) -> R<Val>>) -> R<Val> {
        let Some((first, rest)) = stmts.split_first() else {
            return match cont {
                Some(k) => k(self),
                None => match self.out_param.clone().filter(|_| self.in_value == 0) {
                    Some(ref p) => {
                        let t = self.lookup(p).unwrap_or("?".into());
                        Ok(v(p.clone(), &t))
                    }
                    None => Ok(v("()", "()")),
                },
            };
        };
        // hoists created by this statement must wrap this statement *and* the rest
        self.hoist.push(Vec::new());
        let r = self.one_stmt(first, rest, cont);
        let hs = self.hoist.pop().unwrap();
        let r = r?;
        Ok(self.wrap_hoists(hs, r))
    }

    /// `for i in a..b` / `a..=b` with integer literals, at most 16 iterations, body without control-flow escapes
    fn literal_range(f: &syn::ExprForLoop) -> Option<(i64, i64)> {
        let mut r = &*f.expr;
        while let syn::Expr::Paren(p) = r {
            r = &p.expr;
        }
        let syn::Expr::Range(rg) = r else { return None };
        let lit = |e: &Option<Box<syn::Expr>>| -> Option<i64> {
            match e.as_deref() {
                Some(syn::Expr::Lit(syn::ExprLit { lit: syn::Lit::Int(i), .. })) => i.base10_parse().ok(),
                _ => None,
            }
        };
        let (lo, hi) = (lit(&rg.start)?, lit(&rg.end)?);
        let hi = if matches!(rg.limits, syn::RangeLimits::Closed(_)) { hi + 1 } else { hi };
        if hi < lo || hi - lo > 16 || !matches!(&*f.pat, syn::Pat::Ident(_)) {
            return None;
        }
        struct Esc(bool);
        impl<'ast> syn::visit::Visit<'ast> for Esc {
            fn visit_expr_break(&mut self, _: &'ast syn::ExprBreak) { self.0 = true; }
            fn visit_expr_continue(&mut self, _: &'ast syn::ExprContinue) { self.0 = true; }
            fn visit_expr_return(&mut self, _: &'ast syn::ExprReturn) { self.0 = true; }
            fn visit_expr_try(&mut self, _: &'ast syn::ExprTry) { self.0 = true; }
            fn visit_expr_closure(&mut self, _: &'ast syn::ExprClosure) {}
        }
        let mut esc = Esc(false);
        syn::visit::Visit::visit_block(&mut esc, &f.body);
        if esc.0 { None } else { Some((lo, hi)) }
    }

    fn rest(&mut self, rest: &[syn::Stmt], cont: Option<&dyn Fn(&mut Self) -> R<Val>>) -> R<Val> {
        self.stmts_inner(rest, cont)
    }

    /// L32: statement forms that are rewritten to forms of the rule list before lifting
    ///  (a) `for (a, &b) in X.axis_iter(Axis(0)).zip(Y.iter()) BODY` (also `outer_iter()`; `Y.iter()` or `&Y`) is
    ///      `for k in 0..Y.len() { let a = X.index_axis(Axis(0), k); let b = Y[k]; BODY }` (zip of equally long sequences, A10)
    ///  (c) `for (i, &x) in Y.iter().enumerate() BODY` is `for i in 0..Y.len() { let x = Y[i]; BODY }`
    ///  (b) `A.iter_mut().zip(B.iter()).for_each(|(m, &r)| BODY)` with a local A is
    ///      `A = Zip::from(&A).and(&B).map_collect(|&m0, &r| { let mut m = m0; BODY'; m })`, BODY' = BODY with `*m` read as `m`
    fn desugar_stmt(st: &syn::Stmt) -> Option<syn::Stmt> {
        fn strip_ref(p: &syn::Pat) -> &syn::Pat {
            match p { syn::Pat::Reference(r) => &r.pat, other => other }
        }
        let syn::Stmt::Expr(e, _) = st else { return None };
        match e {
            syn::Expr::ForLoop(f) => {
                let syn::Pat::Tuple(tp) = &*f.pat else { return None };
                if tp.elems.len() != 2 { return None; }
                let syn::Expr::MethodCall(z) = &*f.expr else { return None };
                // (c) `for (i, &x) in Y.iter().enumerate() BODY` is `for i in 0..Y.len() { let x = Y[i]; BODY }`
                if z.method == "enumerate" && z.args.is_empty() {
                    // not for scatter loops (`a[j] = v[i]` / `a.set(j, ..)` over `(i, &j)`): rule L27 reads them in
                    // their original form
                    struct Scatter(bool);
                    impl<'ast> syn::visit::Visit<'ast> for Scatter {
                        fn visit_expr_assign(&mut self, a: &'ast syn::ExprAssign) {
                            if matches!(&*a.left, syn::Expr::Index(_)) { self.0 = true; }
                            syn::visit::visit_expr_assign(self, a);
                        }
                        fn visit_expr_method_call(&mut self, m: &'ast syn::ExprMethodCall) {
                            if m.method == "set" { self.0 = true; }
                            syn::visit::visit_expr_method_call(self, m);
                        }
                    }
                    let mut sc = Scatter(false);
                    syn::visit::Visit::visit_block(&mut sc, &f.body);
                    if sc.0 { return None; }
                    let syn::Expr::MethodCall(it) = &*z.receiver else { return None };
                    if it.method != "iter" || !it.args.is_empty() { return None; }
                    let y = &it.receiver;
                    let syn::Pat::Ident(pi) = &tp.elems[0] else { return None };
                    let (i, px) = (&pi.ident, strip_ref(&tp.elems[1]));
                    let stmts = &f.body.stmts;
                    let synth: syn::Stmt = syn::parse2(quote::quote!(
                        for #i in 0..(#y).len() { let #px = (#y)[#i]; #(#stmts)* }
                    )).ok()?;
                    return Some(synth);
                }
                if z.method != "zip" || z.args.len() != 1 { return None; }
                let syn::Expr::MethodCall(ax) = &*z.receiver else { return None };
                let x = &ax.receiver;
                let is_axis0 = ax.method == "outer_iter" && ax.args.is_empty()
                    || ax.method == "axis_iter" && ax.args.len() == 1 && ax.args[0].to_token_stream().to_string().replace(' ', "") == "Axis(0)";
                if !is_axis0 { return None; }
                let mut y = &z.args[0];
                while let syn::Expr::Reference(r) = y { y = &r.expr; }
                if let syn::Expr::MethodCall(yi) = y {
                    if yi.method == "iter" && yi.args.is_empty() { y = &yi.receiver; } else { return None; }
                }
                let (pa, pb) = (strip_ref(&tp.elems[0]), strip_ref(&tp.elems[1]));
                let stmts = &f.body.stmts;
                let synth: syn::Stmt = syn::parse2(quote::quote!(
                    for k__z in 0..(#y).len() { let #pa = (#x).index_axis(Axis(0), k__z); let #pb = (#y)[k__z]; #(#stmts)* }
                )).ok()?;
                Some(synth)
            }
            syn::Expr::MethodCall(fe) if fe.method == "for_each" && fe.args.len() == 1 => {
                let syn::Expr::Closure(cl) = &fe.args[0] else { return None };
                let syn::Expr::MethodCall(z) = &*fe.receiver else { return None };
                if z.method != "zip" || z.args.len() != 1 { return None; }
                let syn::Expr::MethodCall(im) = &*z.receiver else { return None };
                if im.method != "iter_mut" || !im.args.is_empty() { return None; }
                let syn::Expr::Path(ap) = &*im.receiver else { return None };
                let a = ap.path.get_ident()?.clone();
                let mut b = &z.args[0];
                while let syn::Expr::Reference(r) = b { b = &r.expr; }
                if let syn::Expr::MethodCall(bi) = b {
                    if bi.method == "iter" && bi.args.is_empty() { b = &bi.receiver; } else { return None; }
                }
                if cl.inputs.len() != 1 { return None; }
                let syn::Pat::Tuple(tp) = &cl.inputs[0] else { return None };
                if tp.elems.len() != 2 { return None; }
                let syn::Pat::Ident(m) = &tp.elems[0] else { return None };
                let m = m.ident.clone();
                let pb = strip_ref(&tp.elems[1]);
                struct Un(syn::Ident);
                impl syn::visit_mut::VisitMut for Un {
                    fn visit_expr_mut(&mut self, e: &mut syn::Expr) {
                        if let syn::Expr::Unary(u) = e {
                            if matches!(u.op, syn::UnOp::Deref(_)) {
                                if let syn::Expr::Path(p) = &*u.expr {
                                    if p.path.is_ident(&self.0) {
                                        *e = (*u.expr).clone();
                                        return;
                                    }
                                }
                            }
                        }
                        syn::visit_mut::visit_expr_mut(self, e);
                    }
                }
                let mut body = (*cl.body).clone();
                syn::visit_mut::VisitMut::visit_expr_mut(&mut Un(m.clone()), &mut body);
                let m0 = syn::Ident::new(&format!("{m}__in"), m.span());
                let synth: syn::Stmt = syn::parse2(quote::quote!(
                    #a = Zip::from(&#a).and(&#b).map_collect(|&#m0, &#pb| { let mut #m = #m0; #body; #m });
                )).ok()?;
                Some(synth)
            }
            _ => None,
        }
    }

    fn one_stmt(&mut self, st: &syn::Stmt, rest: &[syn::Stmt], cont: Option<&dyn Fn(&mut Self) -> R<Val>>) -> R<Val> {
        if let Some(synth) = Self::desugar_stmt(st) {
            self.note("L32", st.span(), "statement rewritten (zip of rows and entries as an index loop / iter_mut().zip().for_each as an element-wise map)");
            return self.one_stmt(&synth, rest, cont);
        }
        match st {
            syn::Stmt::Local(l) => {
                let init = l.init.as_ref().ok_or("let without initialiser")?;
                if init.diverge.is_some() {
                    return unsupported("let-else", &l.pat);
                }
                // L5c: `let f = |x| e;` where e reads nothing but x (and non-local names): the closure stands for its
                // text wherever `f` is handed to mapv / map
                if let (syn::Expr::Closure(cl), syn::Pat::Ident(pi)) = (&*init.expr, &l.pat) {
                    if cl.inputs.len() == 1 {
                        let pn = match &cl.inputs[0] {
                            syn::Pat::Ident(i) => Some(i.ident.to_string()),
                            syn::Pat::Type(pt) => match &*pt.pat { syn::Pat::Ident(i) => Some(i.ident.to_string()), _ => None },
                            _ => None,
                        };
                        if let Some(pn) = pn {
                            let captured: Vec<String> = Self::idents_of(&cl.body).into_iter().filter(|x| *x != pn && self.lookup(x).is_some()).collect();
                            if captured.is_empty() {
                                self.local_closures.insert(pi.ident.to_string(), (*init.expr).clone());
                                self.note("L5c", l.span(), "closure bound to a local and reading only its parameter: inlined at its uses");
                                return self.rest(rest, cont);
                            }
                        }
                    }
                }
                // L18: `let s = <array>.sum();` binds the summand array as `s__terms` (observable), so that
                // contracts can speak about the terms of a sum without repeating the lifted expression
                let mut terms: Option<(String, Val)> = None;
                if let (syn::Expr::MethodCall(m), syn::Pat::Ident(pi)) = (&*init.expr, &l.pat) {
                    if m.method == "sum" && m.args.is_empty() {
                        let recv = self.expr(&m.receiver)?;
                        if recv.ty == "RArr" {
                            let tname = format!("{}__terms", pi.ident);
                            if self.observe.as_deref() == Some(tname.as_str()) {
                                if self.ret_ty.starts_with("Result<") {
                                    return Ok(v(format!("{{ let {tname} = {}; Ok::<RArr, LErr>({tname}) }}", recv.text), "Result<RArr, LErr>"));
                                }
                                return Ok(v(format!("{{ let {tname} = {}; {tname} }}", recv.text), "RArr"));
                            }
                            self.bind(&tname, "RArr");
                            self.note("L18", l.span(), "summand array of a bound sum is bound as `<name>__terms`");
                            terms = Some((tname, recv));
                        }
                    }
                }
                // tolerant lifts: a `?` inside a branch of the initialiser would be hoisted to the branch only; such
                // a binding is made opaque instead (L23)
                let nested_try = self.tolerant && {
                    struct NT { depth: usize, found: bool }
                    impl<'ast> syn::visit::Visit<'ast> for NT {
                        fn visit_expr_match(&mut self, m: &'ast syn::ExprMatch) {
                            syn::visit::Visit::visit_expr(self, &m.expr);
                            self.depth += 1;
                            for a in &m.arms {
                                syn::visit::Visit::visit_expr(self, &a.body);
                            }
                            self.depth -= 1;
                        }
                        fn visit_expr_if(&mut self, i: &'ast syn::ExprIf) {
                            syn::visit::Visit::visit_expr(self, &i.cond);
                            self.depth += 1;
                            syn::visit::Visit::visit_block(self, &i.then_branch);
                            if let Some((_, e)) = &i.else_branch {
                                syn::visit::Visit::visit_expr(self, e);
                            }
                            self.depth -= 1;
                        }
                        fn visit_expr_try(&mut self, t: &'ast syn::ExprTry) {
                            if self.depth > 0 {
                                self.found = true;
                            }
                            syn::visit::visit_expr_try(self, t);
                        }
                        fn visit_expr_closure(&mut self, _: &'ast syn::ExprClosure) {}
                    }
                    let mut nt = NT { depth: 0, found: false };
                    syn::visit::Visit::visit_expr(&mut nt, &init.expr);
                    nt.found
                };
                let x = match &terms {
                    Some((tname, _)) => v(format!("rsum({tname}.len, {tname}.at)"), "real"),
                    None => match (if nested_try { Err("`?` inside a branch of the initialiser".to_string()) } else { self.expr(&init.expr) }) {
                        Ok(x) => x,
                        Err(e) => {
                            // L20: an iterator chain outside the supported forms, collected into a variable whose
                            // type is known because it shadows an earlier binding: arbitrary value of that type.
                            // A refutation that depends on it is only trusted with a replayed witness.
                            let shadow = match &l.pat { syn::Pat::Ident(pi) => self.lookup(&pi.ident.to_string()), _ => None };
                            let is_collect = matches!(&*init.expr, syn::Expr::MethodCall(m) if m.method == "collect");
                            match (shadow, is_collect) {
                                (Some(ty), true) if ty == "OArr" || ty == "RArr" => {
                                    let var = match &l.pat { syn::Pat::Ident(pi) => pi.ident.to_string(), _ => unreachable!() };
                                    let hname = format!("{}__havoc_{var}", self.fn_name);
                                    let decl = format!(
                                        "pub uninterp spec fn {hname}({}) -> {ty};",
                                        self.params.iter().map(|(n, t)| format!("{n}: {t}")).collect::<Vec<_>>().join(", ")
                                    );
                                    if !self.havocs.contains(&decl) {
                                        self.havocs.push(decl);
                                    }
                                    self.note("L20", l.span(), &format!("unsupported iterator chain collected into `{var}`: havoc'd ({e})"));
                                    let plist: Vec<String> = self.params.iter().map(|(n, _)| n.clone()).collect();
                                    v(format!("{hname}({})", plist.join(", ")), &ty)
                                }
                                _ if self.tolerant && matches!(&*init.expr, syn::Expr::Closure(_)) && self.shallow_closure_capture(&init.expr).is_some() => {
                                    // L17f for closures: the observed call sits in a closure bound here
                                    let a = self.shallow_closure_capture(&init.expr).unwrap();
                                    self.note("L17f", l.span(), "observable taken from a call inside a closure body: the argument only mentions parameters of the function that are never rebound");
                                    if self.ret_ty.starts_with("Result<") {
                                        return Ok(v(format!("{{ let cap__ = {}; Ok::<{}, LErr>(cap__) }}", a.text, a.ty), &format!("Result<{}, LErr>", a.ty)));
                                    }
                                    return Ok(v(format!("{{ let cap__ = {}; cap__ }}", a.text), &a.ty));
                                }
                                _ if self.tolerant => {
                                    // L23 (tolerant lifts, observe mode): a binding whose initialiser is outside the subset is
                                    // an opaque value; anything computed from it is opaque too.  Only what the observed
                                    // expression mentions has to be liftable.
                                    let mut names = Vec::new();
                                    struct PB2<'z>(&'z mut Vec<String>);
                                    impl<'ast, 'z> syn::visit::Visit<'ast> for PB2<'z> {
                                        fn visit_pat_ident(&mut self, i: &'ast syn::PatIdent) {
                                            self.0.push(i.ident.to_string());
                                        }
                                    }
                                    syn::visit::Visit::visit_pat(&mut PB2(&mut names), &l.pat);
                                    self.note("L23", l.span(), &format!("binding outside the subset made opaque (tolerant lift): {e}"));
                                    let mut pre = String::new();
                                    for n in &names {
                                        self.bind(n, "LOpaque");
                                        pre.push_str(&format!("let {n} = arbitrary::<LOpaque>(); "));
                                    }
                                    let r = self.rest(rest, cont)?;
                                    return Ok(v(format!("{{ {pre}{} }}", r.text), &r.ty));
                                }
                                _ => return Err(e),
                            }
                        }
                    },
                };
                // a named observable bound inside a branch of this initialiser: the captured value is the result
                if self.observe.as_ref().map(|o| !o.starts_with('@')).unwrap_or(false) && x.text.contains("let cap__ =") {
                    return Ok(x);
                }
                if let Some((tname, recv)) = terms {
                    // emit `{ let s__terms = ..; <the ordinary let for s and the rest> }`
                    let pat_name = match &l.pat { syn::Pat::Ident(pi) => pi.ident.to_string(), _ => unreachable!() };
                    self.bind(&pat_name, "real");
                    if let Some(obs) = self.observe.clone() {
                        if pat_name == obs {
                            if self.ret_ty.starts_with("Result<") {
                                return Ok(v(format!("{{ let {tname} = {}; {{ let {pat_name} = {}; Ok::<real, LErr>({pat_name}) }} }}", recv.text, x.text), "Result<real, LErr>"));
                            }
                            return Ok(v(format!("{{ let {tname} = {}; {{ let {pat_name} = {}; {pat_name} }} }}", recv.text, x.text), "real"));
                        }
                    }
                    let r = self.rest(rest, cont)?;
                    return Ok(v(format!("{{ let {tname} = {}; {{ let {pat_name} = {}; {} }} }}", recv.text, x.text, r.text), &r.ty));
                }
                let mut ty = x.ty.clone();
                let pat = match &l.pat {
                    syn::Pat::Type(pt) => {
                        // `let x: Vec<_> = ..`: an annotation with inferred parts keeps the initialiser's type
                        if !pt.ty.to_token_stream().to_string().contains('_') {
                            ty = lift_type(self.reg, &pt.ty, self.self_ty.as_deref())?;
                        }
                        self.pattern(&pt.pat, &ty)?
                    }
                    p => self.pattern(p, &ty)?,
                };
                if self.params.iter().any(|(n, _)| *n == pat) {
                    self.rebound_params.push(pat.clone());
                }
                if self.observe.is_none() {
                    if let Some(fname) = self.shared.get(&pat).cloned() {
                        // the main function shares this binding with its (opaque) observable: one atom for the solver
                        if !self.rebound_params.is_empty() && self.rebound_params.iter().any(|p| *p != pat) {
                            return Err(format!("construct outside rule list (lift): shared observable `{pat}` after a parameter was rebound"));
                        }
                        let args: Vec<String> = self.params.iter().map(|(n, _)| n.clone()).collect();
                        self.bind(&pat, &ty);
                        let r = self.rest(rest, cont)?;
                        return Ok(v(format!("{{ let {pat} = crate::{fname}({}); {} }}", args.join(", "), r.text), &r.ty));
                    }
                }
                if let Some(obs) = self.observe.clone() {
                    if pat == obs {
                        // L17: observable — the value of this binding is the result
                        // (`let cap__` marks the captured value: a branch that does not reach the binding is an arbitrary value)
                        if self.ret_ty.starts_with("Result<") {
                            return Ok(v(format!("{{ let {pat} = {}; {{ let cap__ = {pat}; Ok::<{ty}, LErr>(cap__) }} }}", x.text), &format!("Result<{ty}, LErr>")));
                        }
                        return Ok(v(format!("{{ let {pat} = {}; {{ let cap__ = {pat}; cap__ }} }}", x.text), &ty));
                    }
                }
                let r = self.rest(rest, cont)?;
                Ok(v(format!("{{ let {pat} = {}; {} }}", x.text, r.text), &r.ty))
            }
            syn::Stmt::Expr(e, semi) => {
                // tail expression
                if semi.is_none() && rest.is_empty() && cont.is_none() {
                    if let syn::Expr::Return(r) = e {
                        let inner = r.expr.as_ref().ok_or("return without value")?;
                        return self.expr(inner);
                    }
                    if self.out_param.is_some() && self.in_value == 0 {
                        // `()` function mutating its &mut parameter: the tail is a statement
                        return self.effect_stmt(e, rest, cont);
                    }
                    if let syn::Expr::Match(m) = e {
                        return self.match_expr(m, None);
                    }
                    return self.expr(e);
                }
                self.effect_stmt(e, rest, cont)
            }
            syn::Stmt::Macro(m) => {
                // L19: logging macros have no effect on values
                let mname = m.mac.path.segments.last().map(|s| s.ident.to_string()).unwrap_or_default();
                if ["log_iter", "log_result", "println", "eprintln", "debug_assert", "debug_assert_eq"].contains(&mname.as_str()) {
                    self.note("L19", m.mac.span(), "logging / debug macro dropped");
                    return self.rest(rest, cont);
                }
                unsupported("macro statement", &m.mac.path)
            }
            syn::Stmt::Item(_) => Err("construct outside rule list (lift): nested item".into()),
        }
    }

    fn effect_stmt(&mut self, e: &syn::Expr, rest: &[syn::Stmt], cont: Option<&dyn Fn(&mut Self) -> R<Val>>) -> R<Val> {
        use syn::Expr;
        match e {
            Expr::Return(r) => {
                let inner = r.expr.as_ref().ok_or("return without value")?;
                self.expr(inner)
            }
            Expr::Assign(a) if matches!(&*a.left, Expr::Field(f) if matches!(&*f.base, Expr::Path(p) if p.path.get_ident().is_some()) && matches!(f.member, syn::Member::Named(_))) => {
                // `x.f = e;` on a local record: `let x = L_T { f: e, ..x }`
                let Expr::Field(f) = &*a.left else { unreachable!() };
                let Expr::Path(p) = &*f.base else { unreachable!() };
                let var = p.path.get_ident().unwrap().to_string();
                let syn::Member::Named(fname) = &f.member else { unreachable!() };
                let ty = self.lookup(&var).ok_or(format!("assignment to a field of unbound `{var}`"))?;
                let sname = ty.strip_prefix("L_").unwrap_or(&ty).to_string();
                let fields = self.reg.structs.get(&sname).cloned().ok_or(format!("construct outside rule list (lift): field assignment on {ty}"))?;
                let fty = fields.iter().find(|(k, _)| fname == k).map(|(_, t)| t.clone()).ok_or(format!("construct outside rule list (lift): no field `{fname}` in {ty}"))?;
                if self.captured(&var) {
                    return Err(format!("construct outside rule list (lift): field assignment to `{var}`, captured by a closure that runs more than once"));
                }
                let x = self.expr(&a.right)?;
                if x.ty != fty {
                    return Err(format!("construct outside rule list (lift): field {fname}: {fty} assigned a {}", x.ty));
                }
                self.note("L5", e.span(), "field assignment lifted to a record update");
                let r = self.rest(rest, cont)?;
                Ok(v(format!("{{ let {var} = {ty} {{ {fname}: {}, ..{var} }}; {} }}", x.text, r.text), &r.ty))
            }
            Expr::Assign(a) => {
                let name = match &*a.left {
                    Expr::Path(p) if p.path.get_ident().is_some() => p.path.get_ident().unwrap().to_string(),
                    Expr::Unary(u) if matches!(u.op, syn::UnOp::Deref(_)) => match &*u.expr {
                        Expr::Path(p) if p.path.get_ident().is_some() => p.path.get_ident().unwrap().to_string(),
                        _ => return unsupported("assignment target", e),
                    },
                    _ => return unsupported("assignment target", e),
                };
                if self.captured(&name) {
                    return Err(format!("construct outside rule list (lift): assignment to `{name}`, a variable captured by a closure that runs more than once"));
                }
                let x = self.expr(&a.right)?;
                self.note("L5", e.span(), "reassignment lifted to a shadowing spec let");
                self.bind(&name, &x.ty);
                let r = self.rest(rest, cont)?;
                Ok(v(format!("{{ let {name} = {}; {} }}", x.text, r.text), &r.ty))
            }
            Expr::Binary(b) if matches!(b.op, syn::BinOp::AddAssign(_) | syn::BinOp::SubAssign(_) | syn::BinOp::MulAssign(_) | syn::BinOp::DivAssign(_)) => {
                let name = match &*b.left {
                    Expr::Path(p) if p.path.get_ident().is_some() => p.path.get_ident().unwrap().to_string(),
                    Expr::Unary(u) if matches!(u.op, syn::UnOp::Deref(_)) => match &*u.expr {
                        Expr::Path(p) if p.path.get_ident().is_some() => p.path.get_ident().unwrap().to_string(),
                        _ => return unsupported("compound assignment target", e),
                    },
                    _ => return unsupported("compound assignment target", e),
                };
                if self.captured(&name) {
                    return Err(format!("construct outside rule list (lift): compound assignment to `{name}`, a variable captured by a closure that runs more than once"));
                }
                let l = self.expr(&b.left)?;
                let r_ = self.expr(&b.right)?;
                let op = match b.op {
                    syn::BinOp::AddAssign(t) => syn::BinOp::Add(syn::token::Plus(t.spans[0])),
                    syn::BinOp::SubAssign(t) => syn::BinOp::Sub(syn::token::Minus(t.spans[0])),
                    syn::BinOp::MulAssign(t) => syn::BinOp::Mul(syn::token::Star(t.spans[0])),
                    syn::BinOp::DivAssign(t) => syn::BinOp::Div(syn::token::Slash(t.spans[0])),
                    _ => unreachable!(),
                };
                let x = self.binop(&op, l, r_, e)?;
                self.bind(&name, &x.ty);
                let r = self.rest(rest, cont)?;
                Ok(v(format!("{{ let {name} = {}; {} }}", x.text, r.text), &r.ty))
            }
            Expr::ForLoop(f) if Self::literal_range(f).is_some() && self.accumulation_loop(f).is_none() => {
                // L30: a `for` over a literal range of at most 16 values whose body has no `break` / `continue` / `return`
                // is unrolled: the body statements are spliced once per value, the loop variable bound to the literal
                let (lo, hi) = Self::literal_range(f).unwrap();
                let syn::Pat::Ident(pi) = &*f.pat else { return unsupported("loop pattern", e) };
                let mut unrolled: Vec<syn::Stmt> = Vec::new();
                for k in lo..hi {
                    let bind: syn::Stmt = syn::parse_str(&format!("let {} = {k};", pi.ident)).map_err(|e| e.to_string())?;
                    unrolled.push(bind);
                    for st in &f.body.stmts {
                        // a trailing expression statement of the body is a statement of the unrolled sequence
                        match st {
                            syn::Stmt::Expr(x, None) => unrolled.push(syn::Stmt::Expr(x.clone(), Some(Default::default()))),
                            other => unrolled.push(other.clone()),
                        }
                    }
                }
                self.note("L30", e.span(), &format!("loop over the literal range {lo}..{hi} unrolled"));
                unrolled.extend(rest.iter().cloned());
                return self.stmts_inner(&unrolled, cont);
            }
            Expr::ForLoop(f) if self.scatter_loop(f).is_some() => {
                // L27: `for (i, &j) in list.iter().enumerate() { arr.set(j, e(i)) }` (or `arr[j] = e(i)`): the array with
                // the elements at list[0], list[1], .. replaced in this order (a later i wins)
                let (arr, iv, jv, list_e, idx_e, val_e) = self.scatter_loop(f).unwrap();
                let list = self.expr(&list_e)?;
                if list.ty != "Seq<int>" {
                    return Err(format!("construct outside rule list (lift): scatter loop over {}", list.ty));
                }
                self.closure_base.push(self.env.len());
                self.env.push(HashMap::new());
                self.bind(&iv, "int");
                self.bind(&jv, "int");
                let val = self.scoped(&val_e);
                let idx = self.scoped(&idx_e);
                self.env.pop();
                self.closure_base.pop();
                let val = val?;
                let idx = idx?;
                if idx.ty != "int" {
                    return Err(format!("construct outside rule list (lift): scatter loop with index of type {}", idx.ty));
                }
                if val.ty != "real" {
                    return Err(format!("construct outside rule list (lift): scatter loop storing {}", val.ty));
                }
                self.note("L27", e.span(), "scatter loop lifted to an ordered element replacement (later index wins)");
                let mut ids = Self::idents_of(&list_e);
                ids.extend(Self::idents_of(&idx_e));
                let idx_fn = self.hoist_closure("scatter_idx", &ids, &iv, &v(format!("{{ let {jv} = {}[{iv}]; {} }}", list.text, idx.text), "int"));
                ids.extend(Self::idents_of(&val_e));
                let val_fn = self.hoist_closure("scatter_val", &ids, &iv, &v(format!("{{ let {jv} = {}[{iv}]; {} }}", list.text, val.text), "real"));
                self.bind(&arr, "RArr");
                let r = self.rest(rest, cont)?;
                // the usual case `arr[j] = ..` with j the list element itself: the index list is passed as it is
                let idx_is_j = matches!(&idx_e, Expr::Path(p) if p.path.is_ident(&jv))
                    || matches!(&idx_e, Expr::Unary(u) if matches!(u.op, syn::UnOp::Deref(_)) && matches!(&*u.expr, Expr::Path(p) if p.path.is_ident(&jv)));
                if idx_is_j {
                    return Ok(v(format!("{{ let {arr} = scatter_seq({0}, {0}.len() as int, {val_fn}, {arr}); {1} }}", list.text, r.text), &r.ty));
                }
                Ok(v(format!("{{ let {arr} = scatter({}.len() as int, {idx_fn}, {val_fn}, {arr}); {} }}", list.text, r.text), &r.ty))
            }
            Expr::ForLoop(f) if self.accumulation_loop(f).is_some() => {
                // L24: `for i in a..b { <lets>; acc += e; }` is `acc + sum_{i=a}^{b-1} e(i)`
                let (acc, lets, rhs, lo, hi) = self.accumulation_loop(f).unwrap();
                let syn::Pat::Ident(pi) = &*f.pat else { unreachable!() };
                let iv = pi.ident.to_string();
                let lo_v = self.expr(&lo)?;
                let hi_v = self.expr(&hi)?;
                if lo_v.ty != "int" || hi_v.ty != "int" {
                    return unsupported("accumulation loop bounds", e);
                }
                let mut stmts: Vec<syn::Stmt> = lets;
                stmts.push(syn::Stmt::Expr(rhs, None));
                self.closure_base.push(self.env.len());
                self.env.push(HashMap::new());
                self.bind(&iv, "int");
                let body = self.stmts_with_cont(&stmts, None);
                self.env.pop();
                self.closure_base.pop();
                let body = body?;
                if body.ty != "real" {
                    return Err(format!("construct outside rule list (lift): accumulation loop with summand of type {}", body.ty));
                }
                self.note("L24", e.span(), "accumulation loop lifted to a sum over the index range");
                let sum = if lo_v.text == "0int" {
                    let ids = Self::idents_of(&f.body);
                    let cl = self.hoist_summand(&ids, &iv, &body);
                    format!("rsum({}, {cl})", hi_v.text)
                } else {
                    format!("rsum({1} - {0}, |k__: int| {{ let {iv} = {0} + k__; {2} }})", lo_v.text, hi_v.text, body.text)
                };
                self.bind(&acc, "real");
                let r = self.rest(rest, cont)?;
                Ok(v(format!("{{ let {acc} = {acc} + {sum}; {} }}", r.text), &r.ty))
            }
            Expr::ForLoop(f) if self.multi_accumulation_loop(f).is_some() => {
                // L24b: several accumulators and / or nested accumulation loops: every accumulator a becomes
                // a + sum_i S_a(i), where S_a(i) is the value the body gives an accumulator that starts at zero
                let (accs, lo, hi) = self.multi_accumulation_loop(f).unwrap();
                let syn::Pat::Ident(pi) = &*f.pat else { unreachable!() };
                let iv = pi.ident.to_string();
                let lo_v = self.expr(&lo)?;
                let hi_v = self.expr(&hi)?;
                if lo_v.ty != "int" || hi_v.ty != "int" {
                    return unsupported("accumulation loop bounds", e);
                }
                let mut sums: Vec<(String, String)> = Vec::new();
                for a in &accs {
                    // every accumulator starts at zero inside the summand (only the value of `a` is used)
                    let mut stmts: Vec<syn::Stmt> = Vec::new();
                    for b in &accs {
                        stmts.push(syn::parse_str(&format!("let mut {b} = __vx_zeros_like!({b});")).map_err(|e| e.to_string())?);
                    }
                    for st in &f.body.stmts {
                        match st {
                            syn::Stmt::Expr(x, None) => stmts.push(syn::Stmt::Expr(x.clone(), Some(Default::default()))),
                            other => stmts.push(other.clone()),
                        }
                    }
                    stmts.push(syn::Stmt::Expr(syn::parse_str(a).map_err(|e| e.to_string())?, None));
                    self.closure_base.push(self.env.len());
                    self.env.push(HashMap::new());
                    self.bind(&iv, "int");
                    let body = self.stmts_with_cont(&stmts, None);
                    self.env.pop();
                    self.closure_base.pop();
                    let body = body?;
                    let aty = self.lookup(a).unwrap_or_default();
                    if body.ty != aty {
                        return Err(format!("construct outside rule list (lift): accumulation loop with summand of type {} for an accumulator of type {aty}", body.ty));
                    }
                    let sum = if self.named_sums && lo_v.text == "0int" {
                        // `named_sums`: the summand S_a(i) is a named function (contracts and lemmas can refer to it)
                        let mut ids = Self::idents_of(&f.body);
                        ids.extend(accs.iter().cloned());
                        let cl = self.hoist_summand(&ids, &iv, &body);
                        if aty == "RArr" {
                            format!("RArr {{ len: {a}.len, at: |g__: int| rsum({}, |i__h: int| ((({cl})(i__h)).at)(g__)) }}", hi_v.text)
                        } else {
                            format!("rsum({}, {cl})", hi_v.text)
                        }
                    } else if aty == "RArr" {
                        // an array accumulator: the sum is taken entry by entry
                        if lo_v.text == "0int" {
                            format!("RArr {{ len: {a}.len, at: |g__: int| rsum({}, |{iv}: int| (({}).at)(g__)) }}", hi_v.text, body.text)
                        } else {
                            format!("RArr {{ len: {a}.len, at: |g__: int| rsum({1} - {0}, |k__: int| {{ let {iv} = {0} + k__; (({2}).at)(g__) }}) }}", lo_v.text, hi_v.text, body.text)
                        }
                    } else if lo_v.text == "0int" {
                        format!("rsum({}, |{iv}: int| {})", hi_v.text, body.text)
                    } else {
                        format!("rsum({1} - {0}, |k__: int| {{ let {iv} = {0} + k__; {2} }})", lo_v.text, hi_v.text, body.text)
                    };
                    sums.push((a.clone(), sum));
                }
                self.note("L24", e.span(), "accumulation loop (several accumulators / nested) lifted to sums over the index range");
                let r = self.rest(rest, cont)?;
                // the sums are formed from the values before the loop (the summands do not read the accumulators), then
                // the accumulators are rebound, then the rest follows
                let mut binds = String::new();
                for (a, _) in &sums {
                    if self.lookup(a).as_deref() == Some("RArr") {
                        binds.push_str(&format!("let {a} = RArr {{ len: {a}.len, at: |g__: int| ({a}.at)(g__) + ({a}__sum.at)(g__) }}; "));
                    } else {
                        binds.push_str(&format!("let {a} = {a} + {a}__sum; "));
                    }
                }
                let mut out = format!("{{ {binds}{} }}", r.text);
                for (a, sum) in sums.iter().rev() {
                    out = format!("{{ let {a}__sum = {sum}; {out} }}");
                }
                Ok(v(out, &r.ty))
            }
            Expr::ForLoop(_) | Expr::While(_) | Expr::Loop(_) => {
                // L6: havoc every variable assigned in the loop
                let body = match e {
                    Expr::ForLoop(f) => &f.body,
                    Expr::While(w) => &w.body,
                    Expr::Loop(l) => &l.body,
                    _ => unreachable!(),
                };
                // L17e: a call-argument observable inside a `for` loop: the body is lifted once for an arbitrary
                // element (loop variables declared with `loopvars=name:Type;..` become uninterpreted functions of the
                // inputs); what is observed then holds for every iteration
                if let (Expr::ForLoop(f), Some(obs)) = (e, self.observe.clone()) {
                    if obs.starts_with('@') && !self.loopvars.is_empty() {
                        let mut names = Vec::new();
                        struct PI<'a>(&'a mut Vec<String>);
                        impl<'ast, 'a> syn::visit::Visit<'ast> for PI<'a> {
                            fn visit_pat_ident(&mut self, i: &'ast syn::PatIdent) {
                                self.0.push(i.ident.to_string());
                            }
                        }
                        syn::visit::Visit::visit_pat(&mut PI(&mut names), &f.pat);
                        if names.iter().all(|n| self.loopvars.contains_key(n)) {
                            let plist: Vec<String> = self.params.iter().map(|(n, _)| n.clone()).collect();
                            let mut pre = String::from("{ ");
                            self.env.push(HashMap::new());
                            for n in &names {
                                let ty = self.loopvars[n].clone();
                                let hname = format!("{}__loopvar_{n}", self.fn_name);
                                let decl = format!(
                                    "pub uninterp spec fn {hname}({}) -> {ty};",
                                    self.params.iter().map(|(n, t)| format!("{n}: {t}")).collect::<Vec<_>>().join(", ")
                                );
                                if !self.havocs.contains(&decl) {
                                    self.havocs.push(decl);
                                }
                                self.bind(n, &ty);
                                pre.push_str(&format!("let {n} = {hname}({}); ", plist.join(", ")));
                            }
                            let saved_out = self.out_param.take();
                            let b = self.stmts_with_cont(&f.body.stmts, None);
                            self.out_param = saved_out;
                            self.env.pop();
                            if let Ok(b) = b {
                                if b.text.contains("let cap__ =") {
                                    self.note("L17e", e.span(), "observable captured inside a loop body (arbitrary iteration)");
                                    return Ok(v(format!("{pre}{} }}", b.text), &b.ty));
                                }
                            }
                        }
                    }
                    // L17f: shallow capture - the loop body is outside the lifter's subset, but the observed argument
                    // only mentions values that are in scope *before* the loop and are never rebound in the function
                    // (parameters, earlier immutable lets): its value does not depend on the path through the body
                    if let Some(rest_o) = obs.strip_prefix('@') {
                        if let Some((fname, k)) = rest_o.split_once('.') {
                            let fname = fname.split('#').next().unwrap_or("").to_string();
                            let k: usize = k.parse().unwrap_or(usize::MAX);
                            struct FindCall<'x> { name: String, found: Option<&'x syn::ExprCall> }
                            impl<'ast> syn::visit::Visit<'ast> for FindCall<'ast> {
                                fn visit_expr_call(&mut self, c: &'ast syn::ExprCall) {
                                    if self.found.is_none() {
                                        if let syn::Expr::Path(p) = &*c.func {
                                            if p.path.segments.last().map(|s| s.ident == self.name).unwrap_or(false) {
                                                self.found = Some(c);
                                            }
                                        }
                                    }
                                    syn::visit::visit_expr_call(self, c);
                                }
                            }
                            let mut fc = FindCall { name: fname, found: None };
                            syn::visit::Visit::visit_block(&mut fc, &f.body);
                            if let Some(c) = fc.found {
                                if let Some(arg) = c.args.iter().nth(k) {
                                    // identifiers of the argument must not be assigned or bound anywhere in the loop body
                                    let mut ids = Vec::new();
                                    struct Ids<'y>(&'y mut Vec<String>);
                                    impl<'ast, 'y> syn::visit::Visit<'ast> for Ids<'y> {
                                        fn visit_path(&mut self, p: &'ast syn::Path) {
                                            if let Some(i) = p.get_ident() {
                                                self.0.push(i.to_string());
                                            }
                                        }
                                    }
                                    syn::visit::Visit::visit_expr(&mut Ids(&mut ids), arg);
                                    let assigned = Self::assigned_vars(&f.body);
                                    let mut bound = Vec::new();
                                    struct PB<'z>(&'z mut Vec<String>);
                                    impl<'ast, 'z> syn::visit::Visit<'ast> for PB<'z> {
                                        fn visit_pat_ident(&mut self, i: &'ast syn::PatIdent) {
                                            self.0.push(i.ident.to_string());
                                        }
                                    }
                                    syn::visit::Visit::visit_block(&mut PB(&mut bound), &f.body);
                                    syn::visit::Visit::visit_pat(&mut PB(&mut bound), &f.pat);
                                    let stable = ids.iter().all(|i| !assigned.contains(i) && !bound.contains(i));
                                    if stable {
                                        if let Ok(a) = self.expr(arg) {
                                            self.note("L17f", e.span(), "observable taken from a call inside a loop body that is not lifted: the argument only mentions values fixed before the loop");
                                            if self.ret_ty.starts_with("Result<") {
                                                return Ok(v(format!("{{ let cap__ = {}; Ok::<{}, LErr>(cap__) }}", a.text, a.ty), &format!("Result<{}, LErr>", a.ty)));
                                            }
                                            return Ok(v(format!("{{ let cap__ = {}; cap__ }}", a.text), &a.ty));
                                        }
                                    }
                                }
                            }
                        }
                    }
                }
                if Self::contains_return(e) {
                    return unsupported("loop containing return (L6 havoc would drop a control transfer)", &"loop");
                }
                let vars = Self::assigned_vars(body);
                let mut text = String::from("{ ");
                let plist: Vec<String> = self.params.iter().map(|(n, _)| n.clone()).collect();
                for var in &vars {
                    // a variable that is not in scope here is local to the loop body
                    let Some(ty) = self.lookup(var) else { continue };
                    let hname = format!("{}__havoc_{var}", self.fn_name);
                    let decl = format!(
                        "pub uninterp spec fn {hname}({}) -> {ty};",
                        self.params.iter().map(|(n, t)| format!("{n}: {t}")).collect::<Vec<_>>().join(", ")
                    );
                    if !self.havocs.contains(&decl) {
                        self.havocs.push(decl);
                    }
                    self.note("L6", e.span(), &format!("loop: variable `{var}` havoc'd (uninterpreted function of the inputs)"));
                    text.push_str(&format!("let {var} = {hname}({}); ", plist.join(", ")));
                }
                let r = self.rest(rest, cont)?;
                text.push_str(&r.text);
                text.push_str(" }");
                Ok(v(text, &r.ty))
            }
            Expr::If(i) if Self::contains_return(e) => {
                // L14: `if c { return e; }  rest`  →  if c { e } else { rest }
                if matches!(&*i.cond, Expr::Let(_)) {
                    let Expr::Let(l) = &*i.cond else { unreachable!() };
                    let scrut = self.expr(&l.expr)?;
                    self.env.push(HashMap::new());
                    let pat = self.pattern(&l.pat, &scrut.ty);
                    let k = |s: &mut Self| s.rest(rest, cont);
                    let t = match pat {
                        Ok(_) => self.stmts_with_cont(&i.then_branch.stmts, Some(&k)),
                        Err(ref e) => Err(e.clone()),
                    };
                    self.env.pop();
                    let (pat, t) = (pat?, t?);
                    if i.else_branch.is_some() {
                        return unsupported("if-let with else and return", &i.cond);
                    }
                    let f = self.rest(rest, cont)?;
                    self.note("L14", e.span(), "early return: rest of the body moved into the other branch");
                    let mut tf = [t, f];
                    Self::cap_unify(&mut tf);
                    let [t, f] = tf;
                    return Ok(v(format!("(match {} {{ {pat} => {{ {} }}, _ => {{ {} }} }})", scrut.text, t.text, f.text), &t.ty));
                }
                let c = self.expr(&i.cond)?;
                let k = |s: &mut Self| s.rest(rest, cont);
                self.env.push(HashMap::new());
                let t = self.stmts_with_cont(&i.then_branch.stmts, Some(&k));
                self.env.pop();
                let t = t?;
                let f = match &i.else_branch {
                    None => self.rest(rest, cont)?,
                    Some((_, eb)) => match &**eb {
                        Expr::Block(b) => {
                            self.env.push(HashMap::new());
                            let r = self.stmts_with_cont(&b.block.stmts, Some(&k));
                            self.env.pop();
                            r?
                        }
                        other => {
                            // else if ...
                            let stmts = vec![syn::Stmt::Expr(other.clone(), None)];
                            self.stmts_with_cont(&stmts, Some(&k))?
                        }
                    },
                };
                self.note("L14", e.span(), "early return: rest of the body moved into the other branch");
                let mut tf = [t, f];
                Self::cap_unify(&mut tf);
                let [t, f] = tf;
                Ok(v(format!("(if {} {{ {} }} else {{ {} }})", c.text, t.text, f.text), &t.ty))
            }
            Expr::Match(m) if Self::contains_return(e) => {
                let k = |s: &mut Self| s.rest(rest, cont);
                self.note("L14", e.span(), "early return: rest of the body moved into the non-returning arms");
                self.match_expr(m, Some(&k))
            }
            Expr::If(_) | Expr::Match(_) if Self::only_panics(e) => {
                // a statement whose only effect is a panic on some path: the panic path is not part of the lifted
                // function (like unwrap / expect, L16)
                self.note("L16", e.span(), "statement that only panics on some path: dropped");
                self.rest(rest, cont)
            }
            Expr::If(i) => {
                // conditional assignment(s) without return: every variable assigned in a branch becomes
                // `let x = if c { .. } else { x }` (tuple of all assigned variables)
                let mut vars = Self::assigned_vars(&i.then_branch);
                if let Some((_, eb)) = &i.else_branch {
                    if let Expr::Block(b) = &**eb {
                        for x in Self::assigned_vars(&b.block) {
                            if !vars.contains(&x) {
                                vars.push(x);
                            }
                        }
                    } else if let Expr::If(_) = &**eb {
                        let fake = syn::Block { brace_token: Default::default(), stmts: vec![syn::Stmt::Expr((**eb).clone(), None)] };
                        for x in Self::assigned_vars(&fake) {
                            if !vars.contains(&x) {
                                vars.push(x);
                            }
                        }
                    }
                }
                if vars.is_empty() {
                    return unsupported("if statement without assignments or return", e);
                }
                let tup = if vars.len() == 1 { vars[0].clone() } else { format!("({})", vars.join(", ")) };
                let tys: Vec<String> = vars.iter().map(|x| self.lookup(x).unwrap_or("?".into())).collect();
                let tup_ty = if vars.len() == 1 { tys[0].clone() } else { format!("({})", tys.join(", ")) };
                let tupc = tup.clone();
                let tyc = tup_ty.clone();
                let k = move |_s: &mut Self| Ok(v(tupc.clone(), &tyc));
                let c = self.expr(&i.cond)?;
                self.env.push(HashMap::new());
                let t = self.stmts_with_cont(&i.then_branch.stmts, Some(&k));
                self.env.pop();
                let t = t?;
                let f = match &i.else_branch {
                    None => v(tup.clone(), &tup_ty),
                    Some((_, eb)) => match &**eb {
                        Expr::Block(b) => {
                            self.env.push(HashMap::new());
                            let r = self.stmts_with_cont(&b.block.stmts, Some(&k));
                            self.env.pop();
                            r?
                        }
                        other => {
                            let stmts = vec![syn::Stmt::Expr(other.clone(), Some(Default::default()))];
                            self.env.push(HashMap::new());
                            let r = self.stmts_with_cont(&stmts, Some(&k));
                            self.env.pop();
                            r?
                        }
                    },
                };
                self.note("L5", e.span(), "conditional assignment lifted to `let x = if c { .. } else { x }`");
                let r = self.rest(rest, cont)?;
                Ok(v(format!("{{ let {tup} = (if {} {{ {} }} else {{ {} }}); {} }}", c.text, t.text, f.text, r.text), &r.ty))
            }
            Expr::MethodCall(m) if m.method == "mapv_inplace" => {
                let name = match &*m.receiver {
                    Expr::Path(p) if p.path.get_ident().is_some() => p.path.get_ident().unwrap().to_string(),
                    _ => return unsupported("mapv_inplace receiver", e),
                };
                let recv = self.expr(&m.receiver)?;
                let (pn, body) = self.closure1(&m.args[0], "real")?;
                let val = format!("RArr {{ len: {0}.len, at: |i__: int| {{ let {pn} = ({0}.at)(i__); {1} }} }}", recv.text, body.text);
                self.note("L9", e.span(), "mapv_inplace lifted to an element-wise array value");
                let r = self.rest(rest, cont)?;
                Ok(v(format!("{{ let {name} = {val}; {} }}", r.text), &r.ty))
            }
            Expr::MethodCall(m) if self.reg.fns.contains_key(&m.method.to_string())
                && m.args.iter().any(|a| matches!(a, Expr::Reference(r) if r.mutability.is_some())) =>
            {
                // `recv.f(&mut x);` with f lifted as "returns the final value of its &mut parameter"
                let name = m.method.to_string();
                let target = m
                    .args
                    .iter()
                    .find_map(|a| match a {
                        Expr::Reference(r) if r.mutability.is_some() => match &*r.expr {
                            Expr::Path(p) => p.path.get_ident().map(|i| i.to_string()),
                            _ => None,
                        },
                        _ => None,
                    })
                    .ok_or("construct outside rule list (lift): &mut argument is not a variable")?;
                let recv = self.expr(&m.receiver)?;
                let mut args = vec![recv.text];
                for a in &m.args {
                    args.push(self.expr(a)?.text);
                }
                let rty = self.reg.fns[&name].1.clone();
                self.note("L13", e.span(), &format!("call with &mut argument lifted to `let {target} = {name}(..)`"));
                self.bind(&target, &rty);
                let r = self.rest(rest, cont)?;
                Ok(v(format!("{{ let {target} = crate::{name}({}); {} }}", args.join(", "), r.text), &r.ty))
            }
            Expr::Match(m) => {
                // a statement-position match whose arms assign / mutate the out parameter
                let k = |s: &mut Self| s.rest(rest, cont);
                self.match_expr(m, Some(&k))
            }
            Expr::Block(b) => {
                let k = |s: &mut Self| s.rest(rest, cont);
                self.stmts_with_cont(&b.block.stmts, Some(&k))
            }
            Expr::MethodCall(m) if m.method == "set" && m.args.len() == 2 && matches!(&*m.receiver, Expr::Path(p) if p.path.get_ident().map(|i| self.lookup(&i.to_string()).as_deref() == Some("RArr")).unwrap_or(false)) => {
                // L5b: `x.set(i, e);` on a local array: x' = x with element i replaced
                let Expr::Path(p) = &*m.receiver else { unreachable!() };
                let name = p.path.get_ident().unwrap().to_string();
                let idx = self.expr(&m.args[0])?;
                let val = self.expr(&m.args[1])?;
                if idx.ty != "int" || val.ty != "real" {
                    return unsupported("set(index, value)", e);
                }
                let old = if self.captured(&name) {
                    // the array lives outside a closure that runs more than once: earlier invocations may have changed
                    // it - arbitrary array of the same length (L6; refutations resting on it are witness-gated)
                    let hname = format!("{}__havoc_{name}", self.fn_name);
                    let mut ps: Vec<(String, String)> = self.params.clone();
                    let decl = format!(
                        "pub uninterp spec fn {hname}({}, k__: int) -> RArr;",
                        ps.iter().map(|(n, t)| format!("{n}: {t}")).collect::<Vec<_>>().join(", ")
                    );
                    if !self.havocs.contains(&decl) {
                        self.havocs.push(decl);
                    }
                    ps.clear();
                    self.note("L6", e.span(), &format!("`{name}` is mutated inside a closure that runs more than once: its value at closure entry is havoc'd"));
                    let plist: Vec<String> = self.params.iter().map(|(n, _)| n.clone()).collect();
                    format!("RArr {{ len: {name}.len, at: crate::{hname}({}, {}).at }}", plist.join(", "), idx.text)
                } else {
                    name.clone()
                };
                self.note("L5", e.span(), "element assignment lifted to a shadowing spec let");
                self.bind(&name, "RArr");
                let r = self.rest(rest, cont)?;
                Ok(v(format!("{{ let {name} = {{ let o__ = {old}; RArr {{ len: o__.len, at: |k__: int| if k__ == {} {{ {} }} else {{ (o__.at)(k__) }} }} }}; {} }}", idx.text, val.text, r.text), &r.ty))
            }
            Expr::Tuple(t) if t.elems.is_empty() => self.rest(rest, cont),
            Expr::Try(_) => {
                // `e?;` — only the error propagation matters (hoisted match), the value is dropped
                let _ = self.expr(e)?;
                self.rest(rest, cont)
            }
            _ => unsupported("statement", e),
        }
    }

    /// L17c: `observe=@f.k` / `@f#n.k` - the k-th argument handed to the n-th call of `f` (evaluation order) is the
    /// observable, independent of what the locals are called
    fn capture_call_arg(&mut self, key: &str, args: &[Val], ptys: &[String]) -> R<()> {
        let key = key.to_string();
        if let Some(obs) = self.observe.clone() {
            if let Some(rest) = obs.strip_prefix('@') {
                if let Some((fname, k)) = rest.split_once('.') {
                    let (fname, occ) = match fname.split_once('#') {
                        Some((a, n)) => (a, n.parse::<usize>().map_err(|_| format!("bad observable `{obs}`"))?),
                        None => (fname, 0),
                    };
                    let seen = *self.calls_seen.get(&key).unwrap_or(&0);
                    if fname == key {
                        self.calls_seen.insert(key.clone(), seen + 1);
                    }
                    if fname == key && seen == occ {
                        let k: usize = k.parse().map_err(|_| format!("bad observable `{obs}`"))?;
                        if k < args.len() {
                            let mut cap = args[k].clone();
                            if cap.ty.contains('?') {
                                cap = v(format!("{}::<{}>", cap.text, ptys[k].trim_start_matches("Option<").trim_end_matches('>')), &ptys[k]);
                            }
                            self.hoist.last_mut().unwrap().push(("@@capture".to_string(), cap));
                        }
                    }
                }
            }
        }
        Ok(())
    }

    /// L17f for closures: if the observable is `@callee.k` and the closure body calls `callee`, return the lifted k-th
    /// argument provided it only mentions function parameters that are not closure parameters and are never assigned
    /// or rebound inside the closure
    fn shallow_closure_capture(&mut self, e: &syn::Expr) -> Option<Val> {
        let syn::Expr::Closure(cl) = e else { return None };
        let obs = self.observe.clone()?;
        let rest_o = obs.strip_prefix('@')?;
        let (fname, k) = rest_o.split_once('.')?;
        let fname = fname.split('#').next().unwrap_or("").to_string();
        let k: usize = k.parse().ok()?;
        struct FindCall<'x> { name: String, found: Option<&'x syn::ExprCall> }
        impl<'ast> syn::visit::Visit<'ast> for FindCall<'ast> {
            fn visit_expr_call(&mut self, c: &'ast syn::ExprCall) {
                if self.found.is_none() {
                    if let syn::Expr::Path(p) = &*c.func {
                        if p.path.segments.last().map(|s| s.ident == self.name).unwrap_or(false) {
                            self.found = Some(c);
                        }
                    }
                }
                syn::visit::visit_expr_call(self, c);
            }
        }
        let mut fc = FindCall { name: fname, found: None };
        syn::visit::Visit::visit_expr(&mut fc, &cl.body);
        let c = fc.found?;
        let arg = c.args.iter().nth(k)?;
        let mut ids = Vec::new();
        struct Ids<'y>(&'y mut Vec<String>);
        impl<'ast, 'y> syn::visit::Visit<'ast> for Ids<'y> {
            fn visit_path(&mut self, p: &'ast syn::Path) {
                if let Some(i) = p.get_ident() {
                    self.0.push(i.to_string());
                }
            }
        }
        syn::visit::Visit::visit_expr(&mut Ids(&mut ids), arg);
        let mut bound = Vec::new();
        struct PB<'z>(&'z mut Vec<String>);
        impl<'ast, 'z> syn::visit::Visit<'ast> for PB<'z> {
            fn visit_pat_ident(&mut self, i: &'ast syn::PatIdent) {
                self.0.push(i.ident.to_string());
            }
            fn visit_expr_assign(&mut self, a: &'ast syn::ExprAssign) {
                if let syn::Expr::Path(p) = &*a.left {
                    if let Some(i) = p.path.get_ident() {
                        self.0.push(i.to_string());
                    }
                }
                syn::visit::visit_expr_assign(self, a);
            }
        }
        syn::visit::Visit::visit_expr(&mut PB(&mut bound), e);
        let is_param = |n: &String| self.params.iter().any(|(p, _)| p == n) && !self.rebound_params.contains(n);
        if !ids.iter().all(|i| is_param(i) && !bound.contains(i)) {
            return None;
        }
        self.expr(arg).ok()
    }

    /// L17c: when one branch of a join ends in a captured call argument, the other branches (which would return the
    /// function's ordinary result) are arbitrary values of the capture's type
    fn cap_unify(vals: &mut [Val]) {
        if let Some(k) = vals.iter().position(|x| x.text.contains("let cap__ =")) {
            let ty = vals[k].ty.clone();
            for x in vals.iter_mut() {
                if x.ty != ty && !x.text.contains("let cap__ =") {
                    x.text = "arbitrary()".to_string();
                    x.ty = ty.clone();
                }
            }
        }
    }

    fn call(&mut self, c: &syn::ExprCall, whole: &syn::Expr) -> R<Val> {
        let syn::Expr::Path(p) = &*c.func else { return unsupported("call target", whole) };
        let path = Self::path_str(&p.path);
        let last = p.path.segments.last().unwrap().ident.to_string();
        let first = p.path.segments.first().unwrap().ident.to_string();
        match last.as_str() {
            "from_reduced" | "new" if (last == "from_reduced" || first == "Dimensionless") && c.args.len() == 1 => {
                self.note("L11", whole.span(), "unit constructor erased");
                return self.expr(&c.args[0]);
            }
            // `D::zero()` / `D::one()` of a (dual-number) type lifted to real
            "zero" | "one" if p.path.segments.len() == 2 && c.args.is_empty() && self.reg.types.get(&first).map(|t| t == "real").unwrap_or(false) => {
                return Ok(v(if last == "zero" { "0real" } else { "1real" }.to_string(), "real"));
            }
            // `D::from(x)` where the (dual-number) type D is lifted to real and x is a real: the identity
            "from" | "from_re" if p.path.segments.len() == 2 && c.args.len() == 1 && self.reg.types.get(&first).map(|t| t == "real").unwrap_or(false) => {
                let x = self.expr(&c.args[0])?;
                if x.ty == "real" {
                    return Ok(x);
                }
                return unsupported("conversion", whole);
            }
            "new" if (first == "Arc" || first == "Rc" || first == "Box") && c.args.len() == 1 => {
                self.note("L12", whole.span(), "smart-pointer constructor is the identity");
                return self.expr(&c.args[0]);
            }
            "Some" | "Ok" | "Err" if p.path.segments.len() == 1 => {
                let x = self.expr(&c.args[0])?;
                let ty = match last.as_str() {
                    "Some" => format!("Option<{}>", x.ty),
                    "Ok" => {
                        if self.ret_ty.starts_with("Result<") { self.ret_ty.clone() } else { format!("Result<{}, LErr>", x.ty) }
                    }
                    _ => {
                        if self.ret_ty.starts_with("Result<") { self.ret_ty.clone() } else { "Result<?, LErr>".into() }
                    }
                };
                if last == "Err" {
                    return Ok(v("Err(LErr::E)".to_string(), &ty));
                }
                return Ok(v(format!("{last}({})", x.text), &ty));
            }
            _ => {}
        }
        if first == "EosError" {
            return Ok(v("LErr::E", "LErr"));
        }
        if first == "String" {
            return Ok(v("()", "()"));
        }
        match path.as_str() {
            "Array1::linspace" | "Array::linspace" => {
                let a = self.expr(&c.args[0])?;
                let b = self.expr(&c.args[1])?;
                let n = self.expr(&c.args[2])?;
                self.note("L8", whole.span(), "linspace lifted by its defining formula (A12)");
                return Ok(v(
                    format!("RArr {{ len: {2}, at: |i__: int| {0} + (i__ as real) * ({1} - {0}) / (({2} - 1int) as real) }}", a.text, b.text, n.text),
                    "RArr",
                ));
            }
            "Array1::zeros" | "Array::zeros" | "Array1::ones" | "Array::ones" | "Quantity::zeros" if c.args.len() == 1 => {
                let n = self.expr(&c.args[0])?;
                if n.ty != "int" {
                    return unsupported("zeros/ones shape", whole);
                }
                let x = if path.ends_with("zeros") { "0real" } else { "1real" };
                self.note("L8", whole.span(), "zeros/ones lifted to a constant index function");
                return Ok(v(format!("RArr {{ len: {}, at: |i__: int| {x} }}", n.text), "RArr"));
            }
            "Array1::from_elem" | "Array::from_elem" => {
                let n = self.expr(&c.args[0])?;
                let x = self.expr(&c.args[1])?;
                return Ok(v(format!("RArr {{ len: {}, at: |i__: int| {} }}", n.text, x.text), "RArr"));
            }
            "Array1::from_shape_fn" | "Array::from_shape_fn" | "Quantity::from_shape_fn" | "Array2::from_shape_fn" => {
                let n = if let syn::Expr::Array(sh) = &c.args[0] {
                    if sh.elems.len() != 2 {
                        return unsupported("from_shape_fn shape", whole);
                    }
                    let a = self.expr(&sh.elems[0])?;
                    let b = self.expr(&sh.elems[1])?;
                    v(format!("({}, {})", a.text, b.text), "(int, int)")
                } else if let syn::Expr::Repeat(rp) = &c.args[0] {
                    // `[n; 2]`: a square shape
                    if !matches!(&*rp.len, syn::Expr::Lit(syn::ExprLit { lit: syn::Lit::Int(k), .. }) if k.base10_digits() == "2") {
                        return unsupported("from_shape_fn shape", whole);
                    }
                    let a = self.expr(&rp.expr)?;
                    v(format!("({0}, {0})", a.text), "(int, int)")
                } else {
                    self.expr(&c.args[0])?
                };
                if n.ty == "int" {
                    let (pn, body) = self.closure1(&c.args[1], "int")?;
                    if self.observe.is_some() && body.text.contains("let cap__ =") {
                        // L17e: an observable captured inside the element closure - lifted once for an arbitrary index
                        let Some(ty) = self.loopvars.get(&pn).cloned() else {
                            return Err(format!("construct outside rule list (lift): observable inside a from_shape_fn closure over `{pn}` (declare loopvars={pn}:int)"));
                        };
                        let hname = format!("{}__loopvar_{pn}", self.fn_name);
                        let decl = format!(
                            "pub uninterp spec fn {hname}({}) -> {ty};",
                            self.params.iter().map(|(n, t)| format!("{n}: {t}")).collect::<Vec<_>>().join(", ")
                        );
                        if !self.havocs.contains(&decl) {
                            self.havocs.push(decl);
                        }
                        let plist: Vec<String> = self.params.iter().map(|(n, _)| n.clone()).collect();
                        self.note("L17e", whole.span(), "observable captured inside a from_shape_fn closure (arbitrary index)");
                        return Ok(v(format!("{{ let {pn} = {hname}({}); {} }}", plist.join(", "), body.text), &body.ty));
                    }
                    self.note("L8", whole.span(), "from_shape_fn lifted to an index function");
                    let at = if body.ty == "Rec" { "OArr" } else { "RArr" };
                    return Ok(v(format!("{at} {{ len: {}, at: |{pn}: int| {} }}", n.text, body.text), at));
                }
                if n.ty == "(int, int)" {
                    let syn::Expr::Closure(cl) = &c.args[1] else { return unsupported("from_shape_fn closure", whole) };
                    let syn::Pat::Tuple(tp) = &cl.inputs[0] else { return unsupported("from_shape_fn closure pattern", whole) };
                    let names: Vec<String> = tp.elems.iter().map(|p| p.to_token_stream().to_string()).collect();
                    self.closure_base.push(self.env.len());
                    self.env.push(HashMap::new());
                    for nm in &names {
                        self.bind(nm, "int");
                    }
                    let body = self.scoped(&cl.body);
                    self.env.pop();
                    self.closure_base.pop();
                    let body = body?;
                    self.note("L8", whole.span(), "from_shape_fn (2-D) lifted to an index function");
                    let at = if body.ty == "Rec" { "OArr2" } else { "RArr2" };
                    return Ok(v(
                        format!("{at} {{ n: {0}.0, m: {0}.1, at: |{1}: int, {2}: int| {3} }}", n.text, names[0], names[1], body.text),
                        at,
                    ));
                }
                return unsupported("from_shape_fn shape", whole);
            }
            "Quantity::from_vec" | "Array1::from_vec" | "Array::from_vec" | "arr1" => return self.expr(&c.args[0]),
            "f64::max" => {
                let a = self.expr(&c.args[0])?;
                let b = self.expr(&c.args[1])?;
                return Ok(v(format!("rmax({}, {})", a.text, b.text), "real"));
            }
            "f64::min" => {
                let a = self.expr(&c.args[0])?;
                let b = self.expr(&c.args[1])?;
                return Ok(v(format!("rmin({}, {})", a.text, b.text), "real"));
            }
            _ => {}
        }
        // other functions of the unit / externs: called by last segment
        // `Type::f` inside `impl Type` is `Self::f`
        let first_is_self_ty = p.path.segments.len() == 2
            && (self.self_ty.as_deref() == Some(first.as_str())
                || (self.reg.types.get(&first).is_some() && (self.reg.types.get(&first) == self.self_ty.as_ref() || self.reg.types.get(&first) == self.reg.types.get("Self"))));
        let key = if path == "Self" { "Self_ctor".to_string() } else if first == "Self" || first == "State" || p.path.segments.len() == 1 { last.clone() } else if first_is_self_ty && !self.reg.fns.contains_key(&path.replace("::", "_")) { last.clone() } else { path.replace("::", "_") };
        // overloaded externs (`//@ldeclare f@T1,T2(T1, T2) -> R`): resolved by the lifted argument types
        if !self.reg.fns.contains_key(&key) && self.reg.fns.keys().any(|k| k.starts_with(&format!("{key}@"))) {
            let mut args = Vec::new();
            for a in &c.args {
                args.push(self.expr(a)?);
            }
            let tys: Vec<String> = args.iter().map(|a| a.ty.clone()).collect();
            let okey = format!("{key}@{}", tys.join(","));
            if let Some((_, rty)) = self.reg.fns.get(&okey).cloned() {
                let fname = okey.replace('@', "__").replace(',', "_").replace(['<', '>', ' '], "");
                self.note("L13", whole.span(), &format!("call lifted to the overload `{okey}`"));
                return Ok(v(format!("crate::{fname}({})", args.iter().map(|a| a.text.clone()).collect::<Vec<_>>().join(", ")), &rty));
            }
            return Err(format!("construct outside rule list (lift): no overload `{okey}` declared"));
        }
        if let Some((ptys, rty)) = self.reg.fns.get(&key).cloned() {
            let mut args = Vec::new();
            for a in &c.args {
                args.push(self.expr(a)?);
            }
            if args.len() != ptys.len() {
                return Err(format!("construct outside rule list (lift): call of `{key}` with {} args, declared {}", args.len(), ptys.len()));
            }
            self.capture_call_arg(&key, &args, &ptys)?;
            // L9: a scalar function applied to arrays is applied element-wise
            let arr: Vec<usize> = (0..args.len()).filter(|&i| ptys[i] == "real" && args[i].ty == "RArr").collect();
            if !arr.is_empty() && rty == "real" {
                let first = args[arr[0]].text.clone();
                let parts: Vec<String> = args
                    .iter()
                    .enumerate()
                    .map(|(i, a)| if arr.contains(&i) { format!("({}.at)(i__)", a.text) } else { a.text.clone() })
                    .collect();
                self.note("L9", whole.span(), &format!("scalar spec fn `{key}` applied element-wise"));
                return Ok(v(format!("RArr {{ len: {first}.len, at: |i__: int| crate::{key}({}) }}", parts.join(", ")), "RArr"));
            }
            let arr2: Vec<usize> = (0..args.len()).filter(|&i| ptys[i] == "real" && args[i].ty == "RArr2").collect();
            if !arr2.is_empty() && rty == "real" {
                return unsupported("element-wise call on 2-D arrays", whole);
            }
            self.note("L13", whole.span(), &format!("call lifted to spec fn `{key}`"));
            return Ok(v(format!("crate::{key}({})", args.iter().map(|a| a.text.clone()).collect::<Vec<_>>().join(", ")), &rty));
        }
        // enum tuple variant constructor
        if p.path.segments.len() >= 2 {
            let mut segs: Vec<String> = p.path.segments.iter().map(|s| s.ident.to_string()).collect();
            if segs[0] == "Self" {
                segs[0] = self.self_ty.clone().ok_or("Self outside impl")?;
            }
            if let Some(t) = self.reg.types.get(&segs[0]) {
                if t.starts_with("L_") {
                    segs[0] = t.clone();
                }
            }
            let ty = segs[segs.len() - 2].clone();
            if self.reg.types.contains_key(&ty) || self.reg.types.contains_key(&segs.join("::")) || self.reg.types.values().any(|x| *x == ty) {
                let mut args = Vec::new();
                for a in &c.args {
                    args.push(self.expr(a)?.text);
                }
                return Ok(v(format!("{}({})", segs.join("::"), args.join(", ")), self.reg.types.get(&ty).map(|s| s.as_str()).unwrap_or(&ty)));
            }
        }
        if p.path.segments.len() == 1 {
            if let Some((full, ty, _)) = self.reg.variants.get(&last).cloned() {
                let mut args = Vec::new();
                for a in &c.args {
                    args.push(self.expr(a)?.text);
                }
                return Ok(v(format!("{full}({})", args.join(", ")), &ty));
            }
        }
        Err(format!("construct outside rule list (lift): call of `{path}` (no //@lextern / //@lift for `{key}`)"))
    }

    fn method(&mut self, m: &syn::ExprMethodCall, whole: &syn::Expr) -> R<Val> {
        let name = m.method.to_string();
        // L31: `a2.outer_iter().zip(w).fold(<zeros>, |acc, (row, x)| acc + &row * x)`: the weighted sum of the rows of a
        // two-dimensional array, sum_s a2[s, g] * w[s] for every column g
        if name == "fold" && m.args.len() == 2 {
            if let syn::Expr::MethodCall(z) = &*m.receiver {
                if z.method == "zip" && z.args.len() == 1 {
                    if let syn::Expr::MethodCall(oi) = &*z.receiver {
                        if oi.method == "outer_iter" && oi.args.is_empty() {
                            let a2 = self.expr(&oi.receiver)?;
                            let w = self.expr(&z.args[0])?;
                            let is_zeros = matches!(&m.args[0], syn::Expr::Call(c) if matches!(&*c.func, syn::Expr::Path(p) if p.path.segments.last().map(|s| s.ident == "zeros").unwrap_or(false)));
                            if a2.ty == "RArr2" && w.ty == "RArr" && is_zeros {
                                if let syn::Expr::Closure(cl) = &m.args[1] {
                                    // the closure must be `|acc, (row, x)| acc + &row * x` (names free, `&` optional)
                                    let names: Option<(String, String, String)> = (|| {
                                        if cl.inputs.len() != 2 { return None; }
                                        let acc = match &cl.inputs[0] { syn::Pat::Ident(i) => i.ident.to_string(), syn::Pat::Type(t) => match &*t.pat { syn::Pat::Ident(i) => i.ident.to_string(), _ => return None }, _ => return None };
                                        let syn::Pat::Tuple(tp) = &cl.inputs[1] else { return None };
                                        if tp.elems.len() != 2 { return None; }
                                        let nm = |p: &syn::Pat| match p { syn::Pat::Ident(i) => Some(i.ident.to_string()), syn::Pat::Reference(r) => match &*r.pat { syn::Pat::Ident(i) => Some(i.ident.to_string()), _ => None }, _ => None };
                                        Some((acc, nm(&tp.elems[0])?, nm(&tp.elems[1])?))
                                    })();
                                    if let Some((acc, row, x)) = names {
                                        let body = cl.body.to_token_stream().to_string().replace(' ', "");
                                        let shapes = [format!("{acc}+&{row}*{x}"), format!("{acc}+{row}*{x}"), format!("{acc}+&{row}*&{x}"), format!("{acc}+&{row}*{x}.clone()")];
                                        if shapes.contains(&body) {
                                            self.note("L31", whole.span(), "outer_iter-zip-fold lifted to the weighted sum of the rows");
                                            let (p1, an, q1) = self.arr_bind(&a2);
                                            let (p2, wn, q2) = self.arr_bind(&w);
                                            return Ok(v(format!("{p1}{p2}RArr {{ len: {an}.m, at: |g__: int| rsum({an}.n, |s__: int| ({an}.at)(s__, g__) * ({wn}.at)(s__)) }}{q2}{q1}"), "RArr"));
                                        }
                                    }
                                }
                            }
                        }
                    }
                }
            }
        }
        // L16c: `opt.map_or_else(|| d, f)` with f = `Ok` / `Some` / a one-parameter closure: match
        if name == "map_or_else" && m.args.len() == 2 {
            if let syn::Expr::Closure(dcl) = &m.args[0] {
                if dcl.inputs.is_empty() {
                    let recv = self.expr(&m.receiver)?;
                    if let Some(inner) = recv.ty.strip_prefix("Option<").and_then(|t| t.strip_suffix('>')).map(|t| t.to_string()) {
                        self.closure_base.push(self.env.len());
                        self.env.push(HashMap::new());
                        let dflt = self.scoped(&dcl.body);
                        self.env.pop();
                        self.closure_base.pop();
                        let dflt = dflt?;
                        let (some_text, some_ty) = match &m.args[1] {
                            syn::Expr::Path(p) if p.path.is_ident("Ok") => ("Ok(x__)".to_string(), if dflt.ty.starts_with("Result<") { dflt.ty.clone() } else { format!("Result<{inner}, LErr>") }),
                            syn::Expr::Path(p) if p.path.is_ident("Some") => ("Some(x__)".to_string(), format!("Option<{inner}>")),
                            other => {
                                let (pn, body) = self.closure1(other, &inner)?;
                                (format!("{{ let {pn} = x__; {} }}", body.text), body.ty)
                            }
                        };
                        if some_ty != dflt.ty && !dflt.ty.contains('?') && !some_ty.contains('?') {
                            return Err(format!("construct outside rule list (lift): map_or_else of {} and {}", dflt.ty, some_ty));
                        }
                        return Ok(v(format!("(match {} {{ Some(x__) => {some_text}, None => {} }})", recv.text, dflt.text), &some_ty));
                    }
                }
            }
        }
        // `Zip::from(&a).map_collect(|&x| e)` is `a.mapv(|x| e)`
        if name == "map_collect" && m.args.len() == 1 {
            if let syn::Expr::Call(c) = &*m.receiver {
                if let syn::Expr::Path(fp) = &*c.func {
                    if Self::path_str(&fp.path) == "Zip::from" && c.args.len() == 1 {
                        let recv = self.expr(&c.args[0])?;
                        if recv.ty == "RArr" {
                            let (pn, body) = self.closure1(&m.args[0], "real")?;
                            let (pre, rn, post) = self.arr_bind(&recv);
                            return Ok(v(format!("{pre}RArr {{ len: {0}.len, at: |i__: int| {{ let {pn} = ({0}.at)(i__); {1} }} }}{post}", rn, body.text), "RArr"));
                        }
                    }
                }
            }
        }
        // `Zip::from(&a).and(&b).map_collect(|&x, &y| e)` is `a.iter().zip(&b).map(|(&x, &y)| e).collect()` (ndarray's Zip
        // panics on a shape mismatch: equal lengths, A10)
        if name == "map_collect" && m.args.len() == 1 {
            if let syn::Expr::MethodCall(and) = &*m.receiver {
                if and.method == "and" && and.args.len() == 1 {
                    if let (syn::Expr::Call(c), syn::Expr::Closure(cl)) = (&*and.receiver, &m.args[0]) {
                        if let syn::Expr::Path(fp) = &*c.func {
                            if Self::path_str(&fp.path) == "Zip::from" && c.args.len() == 1 && cl.inputs.len() == 2 {
                                let (a, b, p0, p1, body) = (&c.args[0], &and.args[0], &cl.inputs[0], &cl.inputs[1], &cl.body);
                                let synth: syn::Expr = syn::parse2(quote::quote!((#a).iter().zip(#b).map(|(#p0, #p1)| #body).collect()))
                                    .map_err(|e| e.to_string())?;
                                self.note("L16c", whole.span(), "Zip::from(a).and(b).map_collect lifted as the element-wise map over the common index range");
                                return self.expr(&synth);
                            }
                        }
                    }
                }
            }
        }
        // L9c: `a2.row(i)` / `a2.column(i)`: row / column i of a two-dimensional array
        if (name == "row" || name == "column") && m.args.len() == 1 {
            let recv = self.expr(&m.receiver)?;
            if recv.ty == "RArr2" {
                let idx = self.expr(&m.args[0])?;
                if idx.ty == "int" {
                    return Ok(if name == "row" {
                        v(format!("RArr {{ len: {0}.m, at: |i__: int| ({0}.at)({1}, i__) }}", recv.text, idx.text), "RArr")
                    } else {
                        v(format!("RArr {{ len: {0}.n, at: |i__: int| ({0}.at)(i__, {1}) }}", recv.text, idx.text), "RArr")
                    });
                }
            }
        }
        // L9b: `a2.index_axis(Axis(0), i)` / `Axis(1)`: row / column i of a two-dimensional array
        if name == "index_axis" && m.args.len() == 2 {
            if let syn::Expr::Call(c) = &m.args[0] {
                if let (syn::Expr::Path(fp), Some(syn::Expr::Lit(syn::ExprLit { lit: syn::Lit::Int(k), .. }))) = (&*c.func, c.args.first()) {
                    if fp.path.is_ident("Axis") {
                        let recv = self.expr(&m.receiver)?;
                        let idx = self.expr(&m.args[1])?;
                        if recv.ty == "RArr2" && idx.ty == "int" {
                            return match k.base10_digits() {
                                "0" => Ok(v(format!("RArr {{ len: {0}.m, at: |i__: int| ({0}.at)({1}, i__) }}", recv.text, idx.text), "RArr")),
                                "1" => Ok(v(format!("RArr {{ len: {0}.n, at: |i__: int| ({0}.at)(i__, {1}) }}", recv.text, idx.text), "RArr")),
                                _ => unsupported("index_axis axis", whole),
                            };
                        }
                    }
                }
            }
        }
        // a.iter().zip(&b).map(|(x, y)| e).sum()  - the sum over the common index range of two arrays
        // (`.collect()` instead of `.sum()`: the array of the values over the common index range)
        if (name == "sum" || name == "collect") && m.args.is_empty() {
            if let syn::Expr::MethodCall(mm) = &*m.receiver {
                if mm.method == "map" && mm.args.len() == 1 {
                    if let syn::Expr::MethodCall(z) = &*mm.receiver {
                        if z.method == "zip" && z.args.len() == 1 {
                            if let syn::Expr::MethodCall(it) = &*z.receiver {
                                if (it.method == "iter" || it.method == "into_iter") && it.args.is_empty() {
                                    let a = self.expr(&it.receiver)?;
                                    let mut bexpr = &z.args[0];
                                    while let syn::Expr::Reference(r) = bexpr {
                                        bexpr = &r.expr;
                                    }
                                    if let syn::Expr::MethodCall(bi) = bexpr {
                                        if bi.method == "iter" && bi.args.is_empty() {
                                            bexpr = &bi.receiver;
                                        }
                                    }
                                    let b = self.expr(bexpr)?;
                                    let elem = |t: &str| match t { "RArr" => Some("real"), "OArr" => Some("Rec"), _ => None };
                                    if let (Some(ta), Some(tb), syn::Expr::Closure(cl)) = (elem(&a.ty), elem(&b.ty), &mm.args[0]) {
                                        if let Some(syn::Pat::Tuple(tp)) = cl.inputs.first() {
                                            if tp.elems.len() == 2 && cl.inputs.len() == 1 {
                                                let nm = |p: &syn::Pat| match p {
                                                    syn::Pat::Ident(i) => Some(i.ident.to_string()),
                                                    syn::Pat::Reference(r) => match &*r.pat { syn::Pat::Ident(i) => Some(i.ident.to_string()), _ => None },
                                                    _ => None,
                                                };
                                                if let (Some(xn), Some(yn)) = (nm(&tp.elems[0]), nm(&tp.elems[1])) {
                                                    self.closure_base.push(self.env.len());
                                                    self.env.push(HashMap::new());
                                                    self.bind(&xn, ta);
                                                    self.bind(&yn, tb);
                                                    let body = self.scoped(&cl.body);
                                                    self.env.pop();
                                                    self.closure_base.pop();
                                                    let body = body?;
                                                    if name == "collect" && (body.ty == "real" || body.ty == "Rec") {
                                                        self.note("L8", whole.span(), "zip-map-collect lifted to an index function over the common index range");
                                                        let at = if body.ty == "Rec" { "OArr" } else { "RArr" };
                                                        return Ok(v(
                                                            format!("{at} {{ len: imin({0}.len, {1}.len), at: |k__: int| {{ let {xn} = ({0}.at)(k__); {{ let {yn} = ({1}.at)(k__); {2} }} }} }}", a.text, b.text, body.text),
                                                            at,
                                                        ));
                                                    }
                                                    if name == "sum" && body.ty == "real" {
                                                        self.note("L8", whole.span(), "zip-map-sum lifted to a recursive sum over the common index range");
                                                        return Ok(v(
                                                            format!("rsum(imin({0}.len, {1}.len), |k__: int| {{ let {xn} = ({0}.at)(k__); {{ let {yn} = ({1}.at)(k__); {2} }} }})", a.text, b.text, body.text),
                                                            "real",
                                                        ));
                                                    }
                                                }
                                            }
                                        }
                                    }
                                }
                            }
                        }
                    }
                }
            }
        }
        // (0..n).map(|i| e).sum()
        if name == "sum" && m.args.is_empty() {
            if let syn::Expr::MethodCall(mm) = &*m.receiver {
                if mm.method == "map" && mm.args.len() == 1 {
                    let mut recv = &*mm.receiver;
                    while let syn::Expr::Paren(p) = recv {
                        recv = &p.expr;
                    }
                    if let syn::Expr::Range(r) = recv {
                        if let (Some(lo), Some(hi), syn::RangeLimits::HalfOpen(_)) = (r.start.as_ref(), r.end.as_ref(), &r.limits) {
                            let lo = self.expr(lo)?;
                            let hi = self.expr(hi)?;
                            if lo.text == "0int" && hi.ty == "int" {
                                let (pn, body) = self.closure1(&mm.args[0], "int")?;
                                if body.ty == "real" {
                                    self.note("L8", whole.span(), "range-map-sum lifted to a recursive sum");
                                    let ids = Self::idents_of(&mm.args[0]);
                                    let cl = self.hoist_summand(&ids, &pn, &body);
                                    return Ok(v(format!("rsum({}, {cl})", hi.text), "real"));
                                }
                            }
                        }
                    }
                }
            }
        }
        // L8c: `izip!(a, b, c).map(|(x, y, &z)| e).collect()` - the values over the common index range; when e is a
        // Result the collection is Ok(values) if every element is Ok and an error otherwise (std: FromIterator for Result)
        if name == "collect" {
            if let syn::Expr::MethodCall(mm) = &*m.receiver {
                if let (true, syn::Expr::Macro(mac)) = (mm.method == "map" && mm.args.len() == 1, &*mm.receiver) {
                    if Self::path_str(&mac.mac.path) == "izip" {
                        let parser = syn::punctuated::Punctuated::<syn::Expr, syn::token::Comma>::parse_terminated;
                        let items = syn::parse::Parser::parse2(parser, mac.mac.tokens.clone()).map_err(|e| e.to_string())?;
                        let mut arrs: Vec<Val> = Vec::new();
                        for it in items.iter() {
                            arrs.push(self.expr(it)?);
                        }
                        let syn::Expr::Closure(cl) = &mm.args[0] else { return unsupported("izip closure", whole) };
                        let Some(syn::Pat::Tuple(tp)) = cl.inputs.first() else { return unsupported("izip closure pattern", whole) };
                        if tp.elems.len() != arrs.len() || cl.inputs.len() != 1 {
                            return unsupported("izip closure arity", whole);
                        }
                        let mut lets = String::new();
                        let mut lens: Vec<String> = Vec::new();
                        self.closure_base.push(self.env.len());
                        self.env.push(HashMap::new());
                        for (pe, a) in tp.elems.iter().zip(arrs.iter()) {
                            let nm = match pe {
                                syn::Pat::Ident(i) => i.ident.to_string(),
                                syn::Pat::Reference(r) => match &*r.pat { syn::Pat::Ident(i) => i.ident.to_string(), _ => { self.env.pop(); self.closure_base.pop(); return unsupported("izip closure pattern", whole) } },
                                _ => { self.env.pop(); self.closure_base.pop(); return unsupported("izip closure pattern", whole) }
                            };
                            let (ety, acc, len) = match a.ty.as_str() {
                                "RArr" => ("real".to_string(), format!("({}.at)(k__)", a.text), format!("{}.len", a.text)),
                                "OArr" => ("Rec".to_string(), format!("({}.at)(k__)", a.text), format!("{}.len", a.text)),
                                t if t.starts_with("Seq<") => (t[4..t.len() - 1].to_string(), format!("{}[k__]", a.text), format!("({}.len() as int)", a.text)),
                                _ => { self.env.pop(); self.closure_base.pop(); return unsupported("izip operand", whole) }
                            };
                            self.bind(&nm, &ety);
                            lets.push_str(&format!("let {nm} = {acc}; "));
                            lens.push(len);
                        }
                        let saved = std::mem::replace(&mut self.ret_ty, "Result<real, LErr>".to_string());
                        let body = self.scoped(&cl.body);
                        self.ret_ty = saved;
                        self.env.pop();
                        self.closure_base.pop();
                        let body = body?;
                        let n = lens.iter().skip(1).fold(lens[0].clone(), |acc, l| format!("imin({acc}, {l})"));
                        self.note("L8", whole.span(), "izip-map-collect lifted to an index function over the common index range");
                        if body.ty == "real" {
                            return Ok(v(format!("RArr {{ len: {n}, at: |k__: int| {{ {lets}{} }} }}", body.text), "RArr"));
                        }
                        if body.ty.starts_with("Result<real") {
                            return Ok(v(
                                format!("{{ let f__ = |k__: int| {{ {lets}{} }}; let n__ = {n}; if forall|k__: int| 0 <= k__ < n__ ==> (#[trigger] f__(k__)) is Ok {{ Ok::<RArr, LErr>(RArr {{ len: n__, at: |k__: int| f__(k__)->Ok_0 }}) }} else {{ Err::<RArr, LErr>(LErr::E) }} }}", body.text),
                                "Result<RArr, LErr>",
                            ));
                        }
                        return unsupported("izip element type", whole);
                    }
                }
            }
        }
        // (a..b).map(|i| e).collect()
        if name == "collect" {
            if let syn::Expr::MethodCall(mm) = &*m.receiver {
                // L26: `xs.iter().filter_map(|x| <Option<(key, value)>>).collect()` into a map: a fold over the list in
                // order, later entries replace earlier ones with the same key (std: HashMap::from_iter inserts in order)
                if (mm.method == "filter_map" || mm.method == "map") && mm.args.len() == 1 {
                    if let syn::Expr::MethodCall(it) = &*mm.receiver {
                        if it.method == "iter" || it.method == "into_iter" {
                            if let Ok(list) = self.expr(&it.receiver) {
                                if list.ty == "OArr" {
                                    let (pn, body) = self.closure1(&mm.args[0], "Rec")?;
                                    let want_opt = mm.method == "filter_map";
                                    let inner = if want_opt { body.ty.strip_prefix("Option<").and_then(|t| t.strip_suffix('>')).map(|t| t.to_string()) } else { Some(body.ty.clone()) };
                                    if let Some(inner) = inner {
                                        if inner.starts_with('(') {
                                            let parts = split_top(&inner[1..inner.len() - 1]);
                                            if parts.len() == 2 {
                                                let (kt, vt) = (parts[0].trim().to_string(), parts[1].trim().to_string());
                                                self.note("L26", whole.span(), "iter-filter_map-collect into a map lifted to an ordered fold (later entries win)");
                                                let entry = if want_opt { body.text.clone() } else { format!("Some({})", body.text) };
                                                // the entry function is a named item when the closure only mentions the
                                                // function's parameters, so that contracts can refer to it without
                                                // repeating the lifted text
                                                let mentions_local = {
                                                    struct Ids(Vec<String>);
                                                    impl<'ast> syn::visit::Visit<'ast> for Ids {
                                                        fn visit_ident(&mut self, i: &'ast proc_macro2::Ident) {
                                                            self.0.push(i.to_string());
                                                        }
                                                    }
                                                    let mut ids = Ids(vec![]);
                                                    syn::visit::Visit::visit_expr(&mut ids, &mm.args[0]);
                                                    syn::visit::Visit::visit_expr(&mut ids, &it.receiver);
                                                    self.env.iter().skip(1).any(|fr| fr.keys().any(|k| ids.0.contains(k)))
                                                };
                                                if !mentions_local && self.closure_base.is_empty() {
                                                    let n_e = self.havocs.iter().filter(|h| h.contains("__fold_entries")).count();
                                                    let ename = format!("{}__fold_entries{}", self.fn_name, if n_e == 0 { String::new() } else { n_e.to_string() });
                                                    let ps: Vec<String> = self.params.iter().map(|(n, t)| format!("{n}: {t}")).collect();
                                                    let decl = format!(
                                                        "pub open spec fn {ename}({}) -> spec_fn(int) -> Option<({kt}, {vt})> {{ |k__: int| {{ let {pn} = ({}.at)(k__); {entry} }} }}",
                                                        ps.join(", "), list.text
                                                    );
                                                    if !self.havocs.contains(&decl) {
                                                        self.havocs.push(decl);
                                                    }
                                                    let plist: Vec<String> = self.params.iter().map(|(n, _)| n.clone()).collect();
                                                    return Ok(v(format!("map_fold::<{kt}, {vt}>({}.len, crate::{ename}({}))", list.text, plist.join(", ")), &format!("Map<{kt}, {vt}>")));
                                                }
                                                return Ok(v(
                                                    format!("map_fold::<{kt}, {vt}>({0}.len, |k__: int| {{ let {pn} = ({0}.at)(k__); {entry} }})", list.text),
                                                    &format!("Map<{kt}, {vt}>"),
                                                ));
                                            }
                                        }
                                    }
                                    return unsupported("collect of non-pair elements", whole);
                                }
                            }
                        }
                    }
                }
                if mm.method == "map" {
                    let mut recv = &*mm.receiver;
                    while let syn::Expr::Paren(p) = recv {
                        recv = &p.expr;
                    }
                    if let syn::Expr::Range(r) = recv {
                        let lo = r.start.as_ref().ok_or("open range")?;
                        let hi = r.end.as_ref().ok_or("open range")?;
                        let lo = self.expr(lo)?;
                        let hi = self.expr(hi)?;
                        if lo.text != "0int" {
                            return unsupported("range not starting at 0", whole);
                        }
                        let len = if matches!(r.limits, syn::RangeLimits::Closed(_)) { format!("({} + 1int)", hi.text) } else { hi.text.clone() };
                        let (pn, body) = self.closure1(&mm.args[0], "int")?;
                        if self.observe.is_some() && body.text.contains("let cap__ =") {
                            // L17e for map closures: the observable is captured inside the closure body - the body is
                            // lifted once for an arbitrary element (index `pn` = an uninterpreted function of the inputs)
                            let Some(ty) = self.loopvars.get(&pn).cloned() else {
                                return Err(format!("construct outside rule list (lift): observable inside a map closure over `{pn}` (declare loopvars={pn}:int)"));
                            };
                            let hname = format!("{}__loopvar_{pn}", self.fn_name);
                            let decl = format!(
                                "pub uninterp spec fn {hname}({}) -> {ty};",
                                self.params.iter().map(|(n, t)| format!("{n}: {t}")).collect::<Vec<_>>().join(", ")
                            );
                            if !self.havocs.contains(&decl) {
                                self.havocs.push(decl);
                            }
                            let plist: Vec<String> = self.params.iter().map(|(n, _)| n.clone()).collect();
                            self.note("L17e", whole.span(), "observable captured inside a map closure (arbitrary element)");
                            return Ok(v(format!("{{ let {pn} = {hname}({}); {} }}", plist.join(", "), body.text), &body.ty));
                        }
                        self.note("L8", whole.span(), "range-map-collect lifted to an index function");
                        return Ok(v(format!("RArr {{ len: {len}, at: |{pn}: int| {} }}", body.text), "RArr"));
                    }
                    // list.iter().map(|&i| e).collect()
                    if let syn::Expr::MethodCall(it) = recv {
                        if it.method == "iter" || it.method == "into_iter" {
                            let list = self.expr(&it.receiver)?;
                            if list.ty == "RArr" {
                                let (pn, body) = self.closure1(&mm.args[0], "real")?;
                                self.note("L8", whole.span(), "iter-map-collect over an array lifted to an index function");
                                let at = if body.ty == "Rec" { "OArr" } else { "RArr" };
                                let (pre, ln, post) = self.arr_bind(&list);
                                return Ok(v(format!("{pre}{at} {{ len: {0}.len, at: |k__: int| {{ let {pn} = ({0}.at)(k__); {1} }} }}{post}", ln, body.text), at));
                            }
                            if list.ty == "Seq<int>" {
                                let (pn, body) = self.closure1(&mm.args[0], "int")?;
                                self.note("L8", whole.span(), "iter-map-collect over an index list lifted to an index function");
                                let at = if body.ty == "Rec" { "OArr" } else { "RArr" };
                                return Ok(v(
                                    format!("{at} {{ len: {0}.len() as int, at: |k__: int| {{ let {pn} = {0}[k__]; {1} }} }}", list.text, body.text),
                                    at,
                                ));
                            }
                        }
                    }
                }
            }
            return unsupported("collect", whole);
        }
        // `b.then(|| e)` / `b.then_some(e)`: if b { Some(e) } else { None }
        if (name == "then" || name == "then_some") && m.args.len() == 1 {
            let recv = self.expr(&m.receiver)?;
            if recv.ty == "bool" {
                let body = if name == "then" {
                    let syn::Expr::Closure(cl) = &m.args[0] else { return unsupported("bool::then argument", whole) };
                    if !cl.inputs.is_empty() {
                        return unsupported("bool::then closure arity", whole);
                    }
                    self.scoped(&cl.body)?
                } else {
                    self.expr(&m.args[0])?
                };
                return Ok(v(format!("(if {} {{ Some({}) }} else {{ None }})", recv.text, body.text), &format!("Option<{}>", body.ty)));
            }
        }
        // L22: `xs.iter().any(|x| p)` / `.all(|x| p)` on an array: bounded quantifier over the index
        if (name == "any" || name == "all") && m.args.len() == 1 {
            let recv = self.expr(&m.receiver)?;
            if recv.ty == "RArr" {
                let (pn, body) = self.closure1(&m.args[0], "real")?;
                self.note("L22", whole.span(), "any/all over an array lifted to a bounded quantifier");
                let q = if name == "any" {
                    format!("(exists|i__: int| 0 <= i__ < {0}.len && {{ let {pn} = #[trigger] ({0}.at)(i__); {1} }})", recv.text, body.text)
                } else {
                    format!("(forall|i__: int| 0 <= i__ < {0}.len ==> {{ let {pn} = #[trigger] ({0}.at)(i__); {1} }})", recv.text, body.text)
                };
                return Ok(v(q, "bool"));
            }
            return unsupported("any/all on a non-array", whole);
        }
        let recv = self.expr(&m.receiver)?;
        let mut args = Vec::new();
        for a in &m.args {
            if name == "expect" {
                continue; // the panic message is not a value of the lifted function
            }
            let local_cl = matches!(a, syn::Expr::Path(p) if p.path.get_ident().map(|i| self.local_closures.contains_key(&i.to_string())).unwrap_or(false));
            let fn_path = (name == "map" || name == "mapv") && matches!(a, syn::Expr::Path(p) if p.path.segments.len() == 2);
            if matches!(a, syn::Expr::Closure(_)) || local_cl || fn_path {
                args.push(v("<closure>", "closure"));
            } else {
                args.push(self.expr(a)?);
            }
        }
        let r1 = |f: &str, x: &Val| v(format!("{f}({})", x.text), "real");
        match (name.as_str(), recv.ty.as_str()) {
            ("iter" | "into_iter", "RArr") => return Ok(recv),
            ("clone" | "to_owned" | "to_reduced" | "into_value" | "to_vec" | "view" | "copied" | "as_ref", _) => {
                if name == "to_reduced" || name == "into_value" {
                    self.note("L11", whole.span(), "unit accessor erased");
                }
                return Ok(recv);
            }
            // the real part of a (dual) number lifted to a real is the number itself
            ("re", "real") if args.is_empty() => return Ok(recv),
            ("exp", "real") => return Ok(r1("rexp", &recv)),
            ("ln", "real") => return Ok(r1("rln", &recv)),
            ("sqrt", "real") => return Ok(r1("rsqrt", &recv)),
            ("abs", "real") => return Ok(r1("rabs", &recv)),
            ("atan", "real") => return Ok(r1("ratan", &recv)),
            ("tanh", "real") => return Ok(r1("rtanh", &recv)),
            ("sinh", "real") => return Ok(r1("rsinh", &recv)),
            ("cosh", "real") => return Ok(r1("rcosh", &recv)),
            ("sin", "real") => return Ok(r1("rsin", &recv)),
            ("cos", "real") => return Ok(r1("rcos", &recv)),
            ("signum", "real") => return Ok(r1("rsignum", &recv)),
            ("recip", "real") => return Ok(v(format!("(1real / {})", recv.text), "real")),
            ("max", "int") if args.len() == 1 => return Ok(v(format!("imax({}, {})", recv.text, args[0].text), "int")),
            ("min", "int") if args.len() == 1 => return Ok(v(format!("imin({}, {})", recv.text, args[0].text), "int")),
            ("clamp", "real") if args.len() == 2 => return Ok(v(format!("rmin(rmax({}, {}), {})", recv.text, args[0].text, args[1].text), "real")),
            ("max", "real") if args.len() == 1 => return Ok(v(format!("rmax({}, {})", recv.text, args[0].text), "real")),
            ("min", "real") if args.len() == 1 => return Ok(v(format!("rmin({}, {})", recv.text, args[0].text), "real")),
            ("powf", "real") if args.len() == 1 && args[0].ty == "real" => return Ok(v(format!("rpowf({}, {})", recv.text, args[0].text), "real")),
            ("is_finite", "real") => {
                self.note("A11", whole.span(), "is_finite() of a real is true (no NaN / infinity over the reals)");
                return Ok(v("true".to_string(), "bool"));
            }
            ("is_sign_negative", "real") => return Ok(v(format!("({} < 0real)", recv.text), "bool")),
            ("is_sign_positive", "real") => return Ok(v(format!("({} >= 0real)", recv.text), "bool")),
            ("powi", "real") => {
                if let Some(syn::Expr::Lit(l)) = m.args.first() {
                    if let syn::Lit::Int(i) = &l.lit {
                        let k: usize = i.base10_parse().map_err(|_| "powi exponent")?;
                        if (1..=6).contains(&k) {
                            let f = vec![recv.text.clone(); k].join(" * ");
                            return Ok(v(format!("({f})"), "real"));
                        }
                    }
                }
                if m.args.is_empty() {
                    // quantity powi::<P2>()
                    if let Some(t) = &m.turbofish {
                        let s = t.args.to_token_stream().to_string();
                        let k = match s.as_str() { "P2" => 2, "P3" => 3, _ => 0 };
                        if k > 0 {
                            let f = vec![recv.text.clone(); k].join(" * ");
                            return Ok(v(format!("({f})"), "real"));
                        }
                    }
                    return unsupported("powi", whole);
                }
                if args[0].ty == "int" {
                    return Ok(v(format!("rpowi({}, {})", recv.text, args[0].text), "real"));
                }
                return unsupported("powi", whole);
            }
            ("len", "RArr") => return Ok(v(format!("{}.len", recv.text), "int")),
            // the shape of a one-dimensional array is its length
            ("raw_dim", "RArr") if args.is_empty() => return Ok(v(format!("{}.len", recv.text), "int")),
            ("len", "Seq<int>") => return Ok(v(format!("({}.len() as int)", recv.text), "int")),
            ("len", t) if t.starts_with("Seq<") && args.is_empty() => return Ok(v(format!("({}.len() as int)", recv.text), "int")),
            ("sum", "RArr") => {
                // the summand of a compound array expression is a named function (lemmas can then name it); only in units
                // that ask for it (`named_sums`), so that existing proofs keep their term shapes
                if self.named_sums && !matches!(&*m.receiver, syn::Expr::Path(_)) {
                    let ids = Self::idents_of(&m.receiver);
                    let body = v(format!("({}.at)(i__s)", recv.text), "real");
                    let f = self.hoist_closure("sumterm", &ids, "i__s", &body);
                    return Ok(v(format!("rsum({}.len, {f})", recv.text), "real"));
                }
                let (pre, rn, post) = self.arr_bind(&recv);
                return Ok(v(format!("{pre}rsum({0}.len, {0}.at){post}", rn), "real"));
            }
            ("get", "RArr") if args.len() == 1 => return self.elem(&recv, &args[0].text),
            ("mapv" | "map", "RArr") if m.args.len() == 1 => {
                let (pn, body) = self.closure1(&m.args[0], "real")?;
                let (pre, rn, post) = self.arr_bind(&recv);
                return Ok(v(format!("{pre}RArr {{ len: {0}.len, at: |i__: int| {{ let {pn} = ({0}.at)(i__); {1} }} }}{post}", rn, body.text), "RArr"));
            }
            ("map", t) if t.starts_with("Option<") && m.args.len() == 1 => {
                let inner = t[7..t.len() - 1].to_string();
                let (pn, body) = self.closure1(&m.args[0], &inner)?;
                return Ok(v(
                    format!("(match {} {{ Some({pn}) => Some({}), None => None }})", recv.text, body.text),
                    &format!("Option<{}>", body.ty),
                ));
            }
            ("len", "OArr") => return Ok(v(format!("{}.len", recv.text), "int")),
            ("is_empty", "OArr" | "RArr") => return Ok(v(format!("({}.len == 0int)", recv.text), "bool")),
            ("is_empty", "Seq<int>") => return Ok(v(format!("({}.len() == 0)", recv.text), "bool")),
            ("get", t) if t.starts_with("Map<") && args.len() == 1 => {
                let parts = split_top(&t[4..t.len() - 1]);
                let vt = parts.get(1).map(|x| x.trim().to_string()).unwrap_or_default();
                return Ok(v(format!("(if {0}.dom().contains({1}) {{ Some({0}[{1}]) }} else {{ None }})", recv.text, args[0].text), &format!("Option<{vt}>")));
            }
            ("contains_key", t) if t.starts_with("Map<") && args.len() == 1 => {
                return Ok(v(format!("{}.dom().contains({})", recv.text, args[0].text), "bool"));
            }
            ("or_else", t) if t.starts_with("Option<") && m.args.len() == 1 => {
                let syn::Expr::Closure(cl) = &m.args[0] else { return unsupported("or_else argument", whole) };
                if !cl.inputs.is_empty() {
                    return unsupported("or_else closure arity", whole);
                }
                let alt = self.scoped(&cl.body)?;
                if alt.ty != t && !alt.ty.contains('?') {
                    return Err(format!("construct outside rule list (lift): or_else of {} with {}", t, alt.ty));
                }
                return Ok(v(format!("(match {} {{ Some(x__) => Some(x__), None => {} }})", recv.text, alt.text), t));
            }
            ("and_then", t) if t.starts_with("Option<") && m.args.len() == 1 => {
                let inner = t[7..t.len() - 1].to_string();
                let (pn, body) = self.closure1(&m.args[0], &inner)?;
                if !body.ty.starts_with("Option<") {
                    return unsupported("and_then closure result", whole);
                }
                return Ok(v(format!("(match {} {{ Some({pn}) => {}, None => None }})", recv.text, body.text), &body.ty));
            }
            // L16b: `res.and_then(|x| f(x))` / `|(a, b)|` for a tuple payload, `res.or_else(|_| g())`: spec matches; a `?`
            // inside the closure body returns from the closure (its hoist wraps the closure's own statements)
            ("and_then", t) if t.starts_with("Result<") && m.args.len() == 1 => {
                let parts = split_top(&t[7..t.len() - 1]);
                let inner = parts[0].trim().to_string();
                let syn::Expr::Closure(cl) = &m.args[0] else { return unsupported("and_then argument", whole) };
                if cl.inputs.len() != 1 {
                    return unsupported("and_then closure arity", whole);
                }
                let mut binds: Vec<(String, String, String)> = vec![]; // (name, type, accessor)
                match &cl.inputs[0] {
                    syn::Pat::Ident(i) => binds.push((i.ident.to_string(), inner.clone(), "x__".into())),
                    syn::Pat::Tuple(tp) if inner.starts_with('(') => {
                        let tys = split_top(&inner[1..inner.len() - 1]);
                        if tys.len() != tp.elems.len() {
                            return unsupported("and_then closure pattern", whole);
                        }
                        for (k, pe) in tp.elems.iter().enumerate() {
                            let syn::Pat::Ident(i) = pe else { return unsupported("and_then closure pattern", whole) };
                            binds.push((i.ident.to_string(), tys[k].trim().to_string(), format!("x__.{k}")));
                        }
                    }
                    _ => return unsupported("and_then closure pattern", whole),
                }
                self.closure_base.push(self.env.len());
                self.env.push(HashMap::new());
                for (n, ty, _) in &binds {
                    self.bind(n, ty);
                }
                let body = self.scoped(&cl.body);
                self.env.pop();
                self.closure_base.pop();
                let body = body?;
                if !body.ty.starts_with("Result<") {
                    return unsupported("and_then closure result", whole);
                }
                let lets: String = binds.iter().map(|(n, _, a)| format!("let {n} = {a}; ")).collect();
                return Ok(v(format!("(match {} {{ Ok(x__) => {{ {lets}{} }}, Err(e__) => Err(e__) }})", recv.text, body.text), &body.ty));
            }
            ("or_else", t) if t.starts_with("Result<") && m.args.len() == 1 => {
                let syn::Expr::Closure(cl) = &m.args[0] else { return unsupported("or_else argument", whole) };
                if cl.inputs.len() != 1 {
                    return unsupported("or_else closure arity", whole);
                }
                let en = match &cl.inputs[0] {
                    syn::Pat::Ident(i) => i.ident.to_string(),
                    syn::Pat::Wild(_) => "e__".to_string(),
                    _ => return unsupported("or_else closure pattern", whole),
                };
                let ety = split_top(&t[7..t.len() - 1]).get(1).map(|x| x.trim().to_string()).unwrap_or("LErr".into());
                self.closure_base.push(self.env.len());
                self.env.push(HashMap::new());
                self.bind(&en, &ety);
                let saved = std::mem::replace(&mut self.ret_ty, t.to_string());
                let body = self.scoped(&cl.body);
                self.ret_ty = saved;
                self.env.pop();
                self.closure_base.pop();
                let body = body?;
                if body.ty != t && !body.ty.contains('?') {
                    return Err(format!("construct outside rule list (lift): or_else of {} with {}", t, body.ty));
                }
                return Ok(v(format!("(match {} {{ Ok(x__) => Ok(x__), Err({en}) => {} }})", recv.text, body.text), t));
            }
            ("map", t) if t.starts_with("Result<") && m.args.len() == 1 => {
                let inner = split_top(&t[7..t.len() - 1])[0].trim().to_string();
                let ety = split_top(&t[7..t.len() - 1]).get(1).map(|x| x.trim().to_string()).unwrap_or("LErr".into());
                let (pn, body) = self.closure1(&m.args[0], &inner)?;
                return Ok(v(format!("(match {} {{ Ok({pn}) => Ok({}), Err(e__) => Err(e__) }})", recv.text, body.text), &format!("Result<{}, {ety}>", body.ty)));
            }
            // error types are merged into LErr: converting the error is the identity
            ("map_err", t) if t.starts_with("Result<") && m.args.len() == 1 => return Ok(recv),
            // L11: a quantity converted to a unit is the quantity divided by the unit
            ("convert_to", "real") if args.len() == 1 && args[0].ty == "real" => return Ok(v(format!("({} / {})", recv.text, args[0].text), "real")),
            ("or", t) if t.starts_with("Option<") && args.len() == 1 && args[0].ty == t => {
                return Ok(v(format!("(match {} {{ Some(x__) => Some(x__), None => {} }})", recv.text, args[0].text), t));
            }
            ("cloned", t) if t.starts_with("Option<") => return Ok(recv),
            ("unwrap_or_default", t) if t.starts_with("Option<") => {
                let inner = t[7..t.len() - 1].to_string();
                let d = match inner.as_str() { "real" => "0real".to_string(), "int" => "0int".to_string(), "Rec" => "rec_default()".to_string(), _ => return unsupported("unwrap_or_default payload", whole) };
                return Ok(v(format!("(match {} {{ Some(x__) => x__, None => {d} }})", recv.text), &inner));
            }
            ("ok", t) if t.starts_with("Result<") && m.args.is_empty() => {
                let inner = split_top(&t[7..t.len() - 1])[0].trim().to_string();
                return Ok(v(format!("(match {} {{ Ok(x__) => Some(x__), Err(_) => None }})", recv.text), &format!("Option<{inner}>")));
            }
            ("unwrap_or", t) if t.starts_with("Option<") => {
                return Ok(v(format!("(match {} {{ Some(x__) => x__, None => {} }})", recv.text, args[0].text), &args[0].ty));
            }
            ("unwrap" | "expect", t) if t.starts_with("Option<") || t.starts_with("Result<") => {
                self.note("L16", whole.span(), "unwrap/expect: the panic path is dropped");
                let inner = if t.starts_with("Option<") { t[7..t.len() - 1].to_string() } else { split_top(&t[7..t.len() - 1])[0].trim().to_string() };
                let pat = if t.starts_with("Option<") { "Some(x__)" } else { "Ok(x__)" };
                return Ok(v(format!("(match {} {{ {pat} => x__, _ => arbitrary() }})", recv.text), &inner));
            }
            _ => {}
        }
        // overloaded methods: `name@RecvTy,ArgTy..`
        if !self.reg.fns.contains_key(&name) && self.reg.fns.keys().any(|k| k.starts_with(&format!("{name}@"))) {
            let mut tys = vec![recv.ty.clone()];
            tys.extend(args.iter().map(|a| a.ty.clone()));
            let okey = format!("{name}@{}", tys.join(","));
            if let Some((_, rty)) = self.reg.fns.get(&okey).cloned() {
                let fname = okey.replace('@', "__").replace(',', "_").replace(['<', '>', ' '], "");
                let mut all = vec![recv.text.clone()];
                all.extend(args.iter().map(|a| a.text.clone()));
                self.note("L13", whole.span(), &format!("method call lifted to the overload `{okey}`"));
                return Ok(v(format!("crate::{fname}({})", all.join(", ")), &rty));
            }
            return Err(format!("construct outside rule list (lift): no overload `{okey}` declared"));
        }
        // methods lifted in this unit or declared extern: f(recv, args)
        if let Some((ptys, rty)) = self.reg.fns.get(&name).cloned() {
            if ptys.len() != args.len() + 1 {
                return Err(format!("construct outside rule list (lift): method `{name}` called with {} args, declared {}", args.len() + 1, ptys.len()));
            }
            let mut allv = vec![recv.clone()];
            allv.extend(args.iter().cloned());
            self.capture_call_arg(&name, &allv, &ptys)?;
            let mut all = vec![recv.text.clone()];
            all.extend(args.iter().map(|a| a.text.clone()));
            self.note("L13", whole.span(), &format!("method call lifted to spec fn `{name}`"));
            return Ok(v(format!("crate::{name}({})", all.join(", ")), &rty));
        }
        Err(format!(
            "construct outside rule list (lift): method `.{name}()` on {} (no //@lextern / //@lift for it) in `{}`",
            recv.ty,
            {
                let mut s = whole.to_token_stream().to_string();
                s.truncate(100);
                s
            }
        ))
    }
}

pub fn split_top(s: &str) -> Vec<String> {
    let mut out = Vec::new();
    let mut depth = 0i32;
    let mut cur = String::new();
    for c in s.chars() {
        match c {
            '<' | '(' | '[' => {
                depth += 1;
                cur.push(c)
            }
            '>' | ')' | ']' => {
                depth -= 1;
                cur.push(c)
            }
            ',' if depth == 0 => {
                out.push(cur.clone());
                cur.clear()
            }
            _ => cur.push(c),
        }
    }
    if !cur.trim().is_empty() {
        out.push(cur);
    }
    out
}

fn parse_sig(s: &str) -> R<(String, Vec<String>, String)> {
    // name(t1, t2) -> t
    let (head, ret) = s.rsplit_once("->").ok_or("expected `name(types) -> type`")?;
    let (name, rest) = head.trim().split_once('(').ok_or("expected `(`")?;
    let inner = rest.trim().strip_suffix(')').ok_or("expected `)`")?;
    let ptys: Vec<String> = split_top(inner).iter().map(|s| s.trim().to_string()).filter(|s| !s.is_empty()).collect();
    Ok((name.trim().to_string(), ptys, ret.trim().to_string()))
}

pub fn ltype(ctx: &mut Ctx, blk: &Block, raw: &str) -> Result<(String, Value), String> {
    let (a, b) = raw.split_once("=>").ok_or("ltype: <Name> => <spec type>")?;
    ctx.lift.types.insert(a.trim().to_string(), b.trim().to_string());
    let _ = blk;
    Ok((format!("// ltype {} => {}\n", a.trim(), b.trim()), json!({"item": format!("ltype {}", a.trim())})))
}

pub fn lextern(ctx: &mut Ctx, raw: &str, emit: bool) -> Result<(String, Value), String> {
    let (name, ptys, ret) = parse_sig(raw)?;
    ctx.lift.fns.insert(name.clone(), (ptys.clone(), ret.clone()));
    let text = if emit {
        let ps: Vec<String> = ptys.iter().enumerate().map(|(i, t)| format!("a{i}: {t}")).collect();
        let name = name.replace('@', "__").replace(',', "_").replace(['<', '>', ' '], "");
        format!("pub uninterp spec fn {name}({}) -> {ret};   // L13\n", ps.join(", "))
    } else {
        format!("// ldeclare {raw}\n")
    };
    Ok((text, json!({"item": format!("lextern {name}"), "rewrites": [{"rule": "L13", "line": 0, "note": format!("`{name}` is an uninterpreted function")}]})))
}

/// `//@lenum <file> <Name>` — lifted enum L_<Name>: payload types mapped by lift_type
pub fn lenum(ctx: &mut Ctx, blk: &Block) -> Result<(String, Value), String> {
    let (file, name) = (blk.args[0].clone(), blk.args[1].clone());
    ctx.load(&file)?;
    let en = ctx.files[&file].1
        .items
        .iter()
        .find_map(|it| match it {
            syn::Item::Enum(s) if s.ident == name => Some(s),
            _ => None,
        })
        .ok_or(format!("lost anchor: enum `{name}` not found"))?;
    let lname = format!("L_{name}");
    let mut variants = Vec::new();
    let mut payloads = Vec::new();
    let mut named_fields: Vec<(String, String)> = Vec::new();
    for vv in &en.variants {
        match &vv.fields {
            syn::Fields::Unit => variants.push(format!("    {},", vv.ident)),
            syn::Fields::Unnamed(u) => {
                let mut tys = Vec::new();
                for f in &u.unnamed {
                    tys.push(lift_type(&ctx.lift, &f.ty, Some(&name)).map_err(|e| format!("variant {}: {e}", vv.ident))?);
                }
                variants.push(format!("    {}({}),", vv.ident, tys.join(", ")));
                payloads.push((format!("{lname}::{}", vv.ident), format!("({})", tys.join(", "))));
            }
            syn::Fields::Named(n) => {
                // struct variant `V { f: T, .. }`: kept as a struct variant; field types registered as
                // `L_Enum::V{}` => "f1:t1;f2:t2" for the pattern rule
                let mut fs = Vec::new();
                let mut reg = Vec::new();
                for f in &n.named {
                    let fname = f.ident.as_ref().map(|i| i.to_string()).unwrap_or_default();
                    let t = lift_type(&ctx.lift, &f.ty, Some(&name)).map_err(|e| format!("variant {}: {e}", vv.ident))?;
                    fs.push(format!("{fname}: {t}"));
                    reg.push(format!("{fname}:{t}"));
                }
                variants.push(format!("    {} {{ {} }},", vv.ident, fs.join(", ")));
                named_fields.push((format!("{lname}::{}{{}}", vv.ident), reg.join(";")));
            }
        }
    }
    let src: &str = &ctx.files[&file].0;
    let offs = Offsets::new(src);
    let (s0, e0) = offs.range(src, en.span());
    let rep = json!({"item": format!("enum {name} (lifted)"), "file": file, "src_lines": [line_of(src, s0), line_of(src, e0)], "src_bytes": [s0, e0], "mode": "lift"});
    ctx.lift.types.insert(name.clone(), lname.clone());
    for vv in &en.variants {
        let full = format!("{lname}::{}", vv.ident);
        let ptys: Vec<String> = payloads
            .iter()
            .find(|(k, _)| *k == full)
            .map(|(_, t)| split_top(t.trim_start_matches('(').trim_end_matches(')')).iter().map(|s| s.trim().to_string()).collect())
            .unwrap_or_default();
        ctx.lift.variants.insert(vv.ident.to_string(), (full, lname.clone(), ptys));
    }
    for (k, t) in payloads {
        ctx.lift.types.insert(k, t);
    }
    for (k, t) in named_fields {
        ctx.lift.types.insert(k, t);
    }
    Ok((format!("pub enum {lname} {{\n{}\n}}\n", variants.join("\n")), rep))
}

pub fn lstruct(ctx: &mut Ctx, blk: &Block) -> Result<(String, Value), String> {
    let (file, name) = (blk.args[0].clone(), blk.args[1].clone());
    ctx.load(&file)?;
    let st = ctx.files[&file].1
        .items
        .iter()
        .find_map(|it| match it {
            syn::Item::Struct(s) if s.ident == name => Some(s),
            _ => None,
        })
        .ok_or(format!("lost anchor: struct `{name}` not found"))?;
    let only: Option<Vec<String>> = blk.opt("fields").map(|s| s.split(',').map(|x| x.to_string()).collect());
    let mut fields = Vec::new();
    let mut dropped = Vec::new();
    // register the name first so that self-references resolve
    ctx.lift.structs.insert(name.clone(), vec![]);
    let syn::Fields::Named(named) = &st.fields else { return Err("lstruct: named fields expected".into()) };
    for f in &named.named {
        let id = f.ident.as_ref().unwrap().to_string();
        if let Some(o) = &only {
            if !o.contains(&id) {
                dropped.push(id);
                continue;
            }
        }
        let t = lift_type(&ctx.lift, &f.ty, Some(&name)).map_err(|e| format!("field {id}: {e}"))?;
        fields.push((id, t));
    }
    let src: &str = &ctx.files[&file].0;
    let offs = Offsets::new(src);
    let (s0, e0) = offs.range(src, st.span());
    ctx.lift.structs.insert(name.clone(), fields.clone());
    let body: Vec<String> = fields.iter().map(|(k, t)| format!("    pub {k}: {t},")).collect();
    let text = format!("pub struct L_{name} {{\n{}\n}}\n", body.join("\n"));
    Ok((
        text,
        json!({"item": format!("struct {name} (lifted)"), "file": file, "src_lines": [line_of(src, s0), line_of(src, e0)], "src_bytes": [s0, e0],
               "dropped": dropped.iter().map(|d| format!("field {d}")).collect::<Vec<_>>(), "mode": "lift"}),
    ))
}

/// `//@lrecord <RustTypeName> f1:t1,f2:t2` — a record type of a dependency declared by hand (its field names are an
/// assumption listed in the unit): lifted struct L_<Name>
pub fn lrecord(ctx: &mut Ctx, blk: &Block) -> Result<(String, Value), String> {
    if blk.args.len() < 2 {
        return Err("lrecord: <Name> f1:t1,f2:t2".into());
    }
    let name = blk.args[0].clone();
    let mut fields = Vec::new();
    for kv in blk.args[1..].join("").split(',') {
        let (k, t) = kv.split_once(':').ok_or("lrecord: field:type")?;
        fields.push((k.trim().to_string(), t.trim().to_string()));
    }
    ctx.lift.structs.insert(name.clone(), fields.clone());
    let body: Vec<String> = fields.iter().map(|(k, t)| format!("    pub {k}: {t},")).collect();
    Ok((format!("pub struct L_{name} {{\n{}\n}}\n", body.join("\n")), json!({"item": format!("record {name} (declared)"), "mode": "lift"})))
}

pub fn lift_fn(ctx: &mut Ctx, blk: &Block) -> Result<(String, Value), String> {
    if blk.args.len() < 2 {
        return Err("lift: expected <file> <path>".into());
    }
    let (file, path) = (blk.args[0].clone(), blk.args[1].clone());
    ctx.load(&file)?;
    // `consts_from=<file>[;<file>]`: module constants the function imports from other files (with `const_values`)
    let consts_from: Vec<String> = blk.opt("consts_from").map(|t| t.split(';').filter(|x| !x.is_empty()).map(|x| x.to_string()).collect()).unwrap_or_default();
    for cf in &consts_from {
        ctx.load(cf)?;
    }
    let src = ctx.src(&file).to_string();
    let offs = Offsets::new(&src);
    // NB: `ctx.ast` borrows ctx immutably; registry is read-only during the lift
    let f = find_fn(&ctx.files[&file].1, &path)?;
    let self_ty: Option<String> = f.self_ty.and_then(|t| match t {
        syn::Type::Path(p) => p.path.segments.last().map(|s| s.ident.to_string()),
        _ => None,
    });
    let short = path.rsplit("::").next().unwrap().split('#').next().unwrap().to_string();
    let name = blk.opt("name").map(|s| s.to_string()).unwrap_or(short.clone());
    let reg = &ctx.lift;
    // parameters
    let mut params: Vec<(String, String)> = Vec::new();
    let mut out_param = None;
    for a in &f.sig.inputs {
        match a {
            syn::FnArg::Receiver(_) if blk.opt("tail_from").is_some() || blk.opt("let_of").is_some() || (blk.opt("assign_of").is_some() || blk.opt("range_of").is_some()) => {}
            syn::FnArg::Receiver(_) => {
                let t = match &self_ty {
                    Some(st) => reg.types.get(st).cloned().unwrap_or(format!("L_{st}")),
                    None => reg.types.get("Self").cloned().ok_or("receiver outside impl (declare //@ltype Self => ...)")?,
                };
                params.push(("self_".into(), t));
            }
            syn::FnArg::Typed(t) => {
                let pn = match &*t.pat {
                    syn::Pat::Ident(i) => i.ident.to_string(),
                    syn::Pat::Wild(_) => format!("unused__{}", params.len()),
                    _ => return Err("construct outside rule list (lift): pattern parameter".into()),
                };
                if let syn::Type::Reference(r) = &*t.ty {
                    if r.mutability.is_some() {
                        out_param = Some(pn.clone());
                    }
                }
                let ty = match lift_type(reg, &t.ty, self_ty.as_deref()) {
                    Ok(t) => t,
                    Err(_) if blk.opt("tail_from").is_some() || blk.opt("let_of").is_some() || (blk.opt("assign_of").is_some() || blk.opt("range_of").is_some()) => continue, // tail lifts declare what they read themselves
                    Err(e) => return Err(format!("parameter {pn}: {e}")),
                };
                params.push((pn, ty));
            }
        }
    }
    // L25 closure-as-function: `closure=<local>:<param>:<type> ret=<type>` lifts the body of the closure bound to
    // <local> as a function of the enclosing function's inputs and the closure's parameter: the statements before the
    // binding are kept, variables the closure assigns are havoc'd at its entry (earlier invocations)
    let mut synth_block: Option<syn::Block> = None;
    if let Some(spec) = blk.opt("closure") {
        let parts: Vec<&str> = spec.split(':').collect();
        if parts.len() != 3 {
            return Err("lift: closure=<local>:<param>:<type>".into());
        }
        let (cname0, pname, pty) = (parts[0], parts[1], parts[2]);
        // `closure=@callee.k:..`: the closure is the k-th argument of the first call of `callee` (a local bound to a
        // closure, whatever its name, or a closure written in place) - the directive follows the data flow, not a name
        let mut inline_cl: Option<syn::ExprClosure> = None;
        let mut cname_owned = cname0.to_string();
        if let Some(rest) = cname0.strip_prefix('@') {
            let (callee, k) = rest.split_once('.').ok_or("closure=@callee.k:<param>:<type>")?;
            let k: usize = k.parse().map_err(|_| "closure=@callee.k:<param>:<type>")?;
            // `callee#n`: the n-th call (0-based, source order)
            let (callee, skip) = match callee.split_once('#') { Some((c, n)) => (c, n.parse::<usize>().map_err(|_| "closure=@callee#n.k:<param>:<type>")?), None => (callee, 0) };
            struct FindCall<'x> { callee: String, arg: Option<&'x syn::Expr>, k: usize, skip: usize }
            impl<'ast> syn::visit::Visit<'ast> for FindCall<'ast> {
                fn visit_expr_call(&mut self, c: &'ast syn::ExprCall) {
                    if self.arg.is_none() {
                        if let syn::Expr::Path(p) = &*c.func {
                            if p.path.segments.last().map(|s| s.ident == self.callee).unwrap_or(false) {
                                if self.skip == 0 {
                                    self.arg = c.args.iter().nth(self.k);
                                } else {
                                    self.skip -= 1;
                                }
                            }
                        }
                    }
                    syn::visit::visit_expr_call(self, c);
                }
            }
            let mut fc = FindCall { callee: callee.to_string(), arg: None, k, skip };
            syn::visit::Visit::visit_block(&mut fc, f.block);
            match fc.arg {
                Some(syn::Expr::Path(p)) if p.path.get_ident().is_some() => cname_owned = p.path.get_ident().unwrap().to_string(),
                Some(syn::Expr::Closure(cl)) => inline_cl = Some(cl.clone()),
                _ => return Err(format!("lost anchor: no call of `{callee}` with a closure as argument {k} in {path}")),
            }
        }
        let cname = cname_owned.as_str();
        let mut found = None;
        if let Some(cl) = inline_cl {
            // the closure is written inside the statement that calls `callee`: every statement before that one is "before"
            let pos = f.block.stmts.iter().position(|st| st.to_token_stream().to_string().contains(&cl.to_token_stream().to_string())).unwrap_or(f.block.stmts.len().saturating_sub(1));
            found = Some((pos, cl));
        }
        for (k, st) in f.block.stmts.iter().enumerate() {
            if found.is_some() {
                break;
            }
            if let syn::Stmt::Local(l) = st {
                if let (syn::Pat::Ident(pi), Some(init)) = (&l.pat, &l.init) {
                    if pi.ident == cname {
                        if let syn::Expr::Closure(cl) = &*init.expr {
                            found = Some((k, cl.clone()));
                        }
                    }
                }
            }
        }
        let Some((k, cl)) = found else { return Err(format!("lost anchor: no closure bound to `{cname}` in {path}")) };
        let cl_param = match cl.inputs.first() {
            Some(syn::Pat::Ident(i)) if cl.inputs.len() == 1 => i.ident.to_string(),
            Some(syn::Pat::Type(t)) if cl.inputs.len() == 1 => t.pat.to_token_stream().to_string(),
            _ => return Err("construct outside rule list (lift): closure arity / pattern".into()),
        };
        // the lifted function's parameter carries the name the directive gives; the closure's own name for it is a local
        let rename: Option<syn::Stmt> = if cl_param != pname {
            Some(syn::parse_str(&format!("let {cl_param} = {pname};")).map_err(|e| e.to_string())?)
        } else {
            None
        };
        let body_blk: syn::Block = match &*cl.body {
            syn::Expr::Block(b) => b.block.clone(),
            other => syn::Block { brace_token: Default::default(), stmts: vec![syn::Stmt::Expr(other.clone(), None)] },
        };
        // backward slice of the statements before the binding: only what the closure body (transitively) mentions
        let mut stmts: Vec<syn::Stmt> = {
            struct Ids(Vec<String>);
            impl<'ast> syn::visit::Visit<'ast> for Ids {
                fn visit_ident(&mut self, i: &'ast proc_macro2::Ident) {
                    self.0.push(i.to_string());
                }
            }
            let mut needed = Ids(vec![]);
            syn::visit::Visit::visit_block(&mut needed, &body_blk);
            // the closure's own parameter shadows an outer binding of the same name
            needed.0.retain(|n| *n != cl_param);
            // L25b: variables listed in `tail_locals=` are parameters of the lifted closure - the slice stops at them
            let cut: Vec<String> = blk.opt("tail_locals").unwrap_or("").split(';').filter_map(|kv| kv.split_once(':').map(|(n, _)| n.trim().to_string())).collect();
            let mut keep: Vec<syn::Stmt> = Vec::new();
            for st in f.block.stmts[..k].iter().rev() {
                if let syn::Stmt::Local(l) = st {
                    let mut bound = Ids(vec![]);
                    syn::visit::Visit::visit_pat(&mut bound, &l.pat);
                    if bound.0.iter().any(|b| needed.0.contains(b) && !cut.contains(b)) {
                        if let Some(init) = &l.init {
                            syn::visit::Visit::visit_expr(&mut needed, &init.expr);
                        }
                        keep.push(st.clone());
                    }
                }
            }
            keep.reverse();
            keep
        };
        // names bound before the closure
        let mut before: Vec<String> = params.iter().map(|(n, _)| n.clone()).collect();
        {
            struct PB<'z>(&'z mut Vec<String>);
            impl<'ast, 'z> syn::visit::Visit<'ast> for PB<'z> {
                fn visit_pat_ident(&mut self, i: &'ast syn::PatIdent) {
                    self.0.push(i.ident.to_string());
                }
                fn visit_expr_closure(&mut self, _: &'ast syn::ExprClosure) {}
            }
            for st in &stmts {
                syn::visit::Visit::visit_stmt(&mut PB(&mut before), st);
            }
        }
        for a in Lifter::assigned_vars(&body_blk) {
            if before.contains(&a) {
                let st: syn::Stmt = syn::parse_str(&format!("let {a} = __vx_havoc!({a});")).map_err(|e| e.to_string())?;
                stmts.push(st);
            }
        }
        if let Some(r) = rename {
            stmts.push(r);
        }
        stmts.extend(body_blk.stmts.iter().cloned());
        synth_block = Some(syn::Block { brace_token: Default::default(), stmts });
        if blk.opt("tail_locals").is_some() {
            params.clear();
            for kv in blk.opt("tail_locals").unwrap_or("").split(';').filter(|x| !x.is_empty()) {
                let (n, t) = kv.split_once(':').ok_or("tail_locals=name:type;...")?;
                params.push((n.trim().to_string(), t.trim().to_string()));
            }
        }
        params.push((pname.to_string(), pty.to_string()));
    }
    // L28 tail-as-function: `tail_from=<local> tail_locals=a:T;b:U ret=<type>` lifts the statements from the binding of
    // <local> to the end of the function as a function of the listed variables (whatever the statements before computed:
    // every variable the tail reads must be listed, with its lifted type)
    if let Some(from) = blk.opt("tail_from") {
        let k = f.block.stmts.iter().position(|st| matches!(st, syn::Stmt::Local(l) if matches!(&l.pat, syn::Pat::Ident(pi) if pi.ident == from)
            || matches!(&l.pat, syn::Pat::Type(pt) if matches!(&*pt.pat, syn::Pat::Ident(pi) if pi.ident == from))));
        let Some(k) = k else { return Err(format!("lost anchor: no binding of `{from}` in {path}")) };
        // L28c `until=<local> outs=a,b`: the segment ends before the binding of <local>; its value is the tuple of the
        // listed variables (one variable: that variable)
        let mut stmts: Vec<syn::Stmt> = f.block.stmts[k..].to_vec();
        if let Some(until) = blk.opt("until") {
            // the first top-level `let <until>` after the start, or (L28d) the first top-level statement that is not a `let`
            // and binds `<until>` somewhere inside (an `if` / loop whose body opens with that binding)
            fn binds_inside(st: &syn::Stmt, name: &str) -> bool {
                struct PB<'z>(&'z str, bool);
                impl<'ast, 'z> syn::visit::Visit<'ast> for PB<'z> {
                    fn visit_pat_ident(&mut self, i: &'ast syn::PatIdent) {
                        if i.ident == self.0 { self.1 = true; }
                    }
                }
                if matches!(st, syn::Stmt::Local(_)) { return false; }
                let mut pb = PB(name, false);
                syn::visit::Visit::visit_stmt(&mut pb, st);
                pb.1
            }
            let ku = f.block.stmts.iter().skip(k).position(|st| matches!(st, syn::Stmt::Local(l) if matches!(&l.pat, syn::Pat::Ident(pi) if pi.ident == until)
                || matches!(&l.pat, syn::Pat::Type(pt) if matches!(&*pt.pat, syn::Pat::Ident(pi) if pi.ident == until))) || binds_inside(st, until));
            let Some(ku) = ku else { return Err(format!("lost anchor: no binding of `{until}` after `{from}` in {path}")) };
            stmts.truncate(ku);
            let outs: Vec<&str> = blk.opt("outs").ok_or("lift: until= needs outs=<a,b,..>")?.split(',').map(|x| x.trim()).filter(|x| !x.is_empty()).collect();
            let tail_expr: syn::Expr = syn::parse_str(&if outs.len() == 1 { outs[0].to_string() } else { format!("({})", outs.join(", ")) }).map_err(|e| e.to_string())?;
            stmts.push(syn::Stmt::Expr(tail_expr, None));
        }
        params.clear();
        for kv in blk.opt("tail_locals").unwrap_or("").split(';').filter(|x| !x.is_empty()) {
            let (n, t) = kv.split_once(':').ok_or("tail_locals=name:type;...")?;
            params.push((n.trim().to_string(), t.trim().to_string()));
        }
        // every identifier the tail mentions that the function binds before the tail (or takes as a parameter) must be listed
        let mut before: Vec<String> = Vec::new();
        for a in &f.sig.inputs {
            if let syn::FnArg::Typed(t) = a {
                if let syn::Pat::Ident(i) = &*t.pat {
                    before.push(i.ident.to_string());
                }
            }
        }
        {
            struct PB<'z>(&'z mut Vec<String>);
            impl<'ast, 'z> syn::visit::Visit<'ast> for PB<'z> {
                fn visit_pat_ident(&mut self, i: &'ast syn::PatIdent) {
                    self.0.push(i.ident.to_string());
                }
            }
            for st in &f.block.stmts[..k] {
                syn::visit::Visit::visit_stmt(&mut PB(&mut before), st);
            }
        }
        // L28b: the tail start is moved upwards over the contiguous run of immutable `let x = <expr>;` statements directly
        // before it whose names the tail reads and the directive does not list - splitting the first statement of the
        // tail into several `let`s does not lose the anchor.  (Only directly adjacent statements: nothing can have
        // changed what they read between them and the tail.)
        let mut stmts = stmts;
        let mut k = k;
        while k > 0 {
            let tail_blk = syn::Block { brace_token: Default::default(), stmts: stmts.clone() };
            let used = Lifter::idents_of(&tail_blk);
            let st = &f.block.stmts[k - 1];
            let mut ok = false;
            if let syn::Stmt::Local(l) = st {
                if let (syn::Pat::Ident(pi), Some(_)) = (&l.pat, &l.init) {
                    let n = pi.ident.to_string();
                    ok = pi.mutability.is_none() && used.contains(&n) && !params.iter().any(|(p, _)| *p == n);
                }
            }
            if !ok {
                break;
            }
            stmts.insert(0, st.clone());
            k -= 1;
        }
        // L28e: immutable top-level `let x = <expr>;` statements further up that the tail reads (directly or through the
        // statements pulled so far) and the directive does not list are pulled in as well - provided no statement
        // between such a `let` and the tail start assigns anything the `let` reads (`let m = p.m[0];` at the top of the
        // function, used throughout)
        {
            // variables only: single-identifier paths (field and method names are not variables)
            struct VarsE(Vec<String>);
            impl<'ast> syn::visit::Visit<'ast> for VarsE {
                fn visit_expr_path(&mut self, p: &'ast syn::ExprPath) {
                    if let Some(i) = p.path.get_ident() {
                        self.0.push(i.to_string());
                    }
                }
                fn visit_macro(&mut self, m: &'ast syn::Macro) {
                    self.0.extend(Lifter::idents_of(&m.tokens));
                }
            }
            let mut pulled_idx: Vec<usize> = Vec::new();
            loop {
                let tail_blk = syn::Block { brace_token: Default::default(), stmts: stmts.clone() };
                let used = { let mut v = VarsE(vec![]); syn::visit::Visit::visit_block(&mut v, &tail_blk); v.0 };
                // names the tail binds itself (closure parameters, patterns) are not reads of an outer binding
                let bound_inside = {
                    struct PBE(Vec<String>);
                    impl<'ast> syn::visit::Visit<'ast> for PBE {
                        fn visit_pat_ident(&mut self, i: &'ast syn::PatIdent) { self.0.push(i.ident.to_string()); }
                    }
                    let mut v = PBE(vec![]);
                    syn::visit::Visit::visit_block(&mut v, &tail_blk);
                    v.0
                };
                let mut picked: Option<usize> = None;
                for j in (0..k).rev() {
                    if pulled_idx.contains(&j) { continue; }
                    if let syn::Stmt::Local(l) = &f.block.stmts[j] {
                        if let (syn::Pat::Ident(pi), Some(li)) = (&l.pat, &l.init) {
                            let n = pi.ident.to_string();
                            if pi.mutability.is_none() && used.contains(&n) && !bound_inside.contains(&n) && !params.iter().any(|(p, _)| *p == n) {
                                // the nearest binding of the name is the one in scope; it must not be shadowed later
                                let shadowed = f.block.stmts[j + 1..k].iter().any(|st| matches!(st, syn::Stmt::Local(l2) if matches!(&l2.pat, syn::Pat::Ident(p2) if p2.ident == n)));
                                let lreads = { let mut v = VarsE(vec![]); syn::visit::Visit::visit_expr(&mut v, &li.expr); v.0 };
                                let between = syn::Block { brace_token: Default::default(), stmts: f.block.stmts[j + 1..k].to_vec() };
                                let assigned = Lifter::assigned_vars(&between);
                                if !shadowed && !assigned.iter().any(|a| lreads.contains(a) || *a == n) {
                                    picked = Some(j);
                                    break;
                                }
                            }
                        }
                    }
                }
                let Some(j) = picked else { break };
                pulled_idx.push(j);
                // keep source order among the pulled statements
                let pos = pulled_idx.iter().filter(|&&q| q < j).count();
                stmts.insert(pos, f.block.stmts[j].clone());
            }
        }
        let tail_blk = syn::Block { brace_token: Default::default(), stmts: stmts.clone() };
        // variables the tail reads: single-identifier paths (field and method names are not variables); macro arguments
        // are token soup, every identifier in them counts
        let used: Vec<String> = {
            struct VarsT(Vec<String>);
            impl<'ast> syn::visit::Visit<'ast> for VarsT {
                fn visit_expr_path(&mut self, p: &'ast syn::ExprPath) {
                    if let Some(i) = p.path.get_ident() {
                        self.0.push(i.to_string());
                    }
                }
                fn visit_macro(&mut self, m: &'ast syn::Macro) {
                    self.0.extend(Lifter::idents_of(&m.tokens));
                }
            }
            let mut v = VarsT(vec![]);
            syn::visit::Visit::visit_block(&mut v, &tail_blk);
            v.0
        };
        let mut own: Vec<String> = Vec::new();
        {
            struct PB<'z>(&'z mut Vec<String>);
            impl<'ast, 'z> syn::visit::Visit<'ast> for PB<'z> {
                fn visit_pat_ident(&mut self, i: &'ast syn::PatIdent) {
                    self.0.push(i.ident.to_string());
                }
            }
            syn::visit::Visit::visit_block(&mut PB(&mut own), &tail_blk);
        }
        for b in &before {
            if used.contains(b) && !own.contains(b) && !params.iter().any(|(n, _)| n == b) {
                return Err(format!("construct outside rule list (lift): the tail from `{from}` reads `{b}`, which is not listed in tail_locals"));
            }
        }
        synth_block = Some(tail_blk);
    }
    // L29 binding-as-function: `let_of=<local> tail_locals=a:T;b:U ret=<type>` lifts the initialiser of the (first) binding
    // of <local> - wherever it sits, e.g. in the innermost of nested loops the lifter cannot read - as a function of the
    // listed variables; every variable the initialiser reads must be listed
    let let_or_assign: Option<String> = blk.opt("let_of").map(|x| x.to_string()).or(blk.opt("assign_of").map(|x| format!("={x}"))).or(blk.opt("range_of").map(|x| format!("~{x}")));
    if let Some(lname0_owned) = let_or_assign {
        let lname0 = lname0_owned.as_str();
        // `let_of=@callee.k[.m]`: the local is named by the data flow - the identifier handed to the first call of
        // `callee` (function or method) as argument k (element m of it when the argument is a tuple)
        let mut lname_owned = lname0.to_string();
        if let Some(rest) = lname0.strip_prefix('@') {
            let parts: Vec<&str> = rest.split('.').collect();
            if parts.len() < 2 || parts.len() > 3 {
                return Err("let_of=@callee.k[.m]".into());
            }
            let callee = parts[0].to_string();
            let k: usize = parts[1].parse().map_err(|_| "let_of=@callee.k[.m]")?;
            let m: Option<usize> = match parts.get(2) { Some(x) => Some(x.parse().map_err(|_| "let_of=@callee.k[.m]")?), None => None };
            struct FindArg<'x> { callee: String, k: usize, arg: Option<&'x syn::Expr> }
            impl<'ast> syn::visit::Visit<'ast> for FindArg<'ast> {
                fn visit_expr_method_call(&mut self, c: &'ast syn::ExprMethodCall) {
                    if self.arg.is_none() && c.method == self.callee {
                        self.arg = c.args.iter().nth(self.k);
                    }
                    syn::visit::visit_expr_method_call(self, c);
                }
                fn visit_expr_call(&mut self, c: &'ast syn::ExprCall) {
                    if self.arg.is_none() {
                        if let syn::Expr::Path(p) = &*c.func {
                            if p.path.segments.last().map(|s| s.ident == self.callee).unwrap_or(false) {
                                self.arg = c.args.iter().nth(self.k);
                            }
                        }
                    }
                    syn::visit::visit_expr_call(self, c);
                }
            }
            let mut fa = FindArg { callee: callee.clone(), k, arg: None };
            syn::visit::Visit::visit_block(&mut fa, f.block);
            let mut e = fa.arg.ok_or(format!("lost anchor: no call of `{callee}` with an argument {k} in {path}"))?;
            if let Some(m) = m {
                let syn::Expr::Tuple(t) = e else { return Err(format!("lost anchor: argument {k} of `{callee}` is not a tuple in {path}")) };
                e = t.elems.iter().nth(m).ok_or(format!("lost anchor: argument {k} of `{callee}` has no element {m} in {path}"))?;
            }
            loop {
                match e {
                    syn::Expr::Reference(r) => e = &r.expr,
                    syn::Expr::Paren(p) => e = &p.expr,
                    syn::Expr::MethodCall(mc) if mc.method == "clone" && mc.args.is_empty() => e = &mc.receiver,
                    _ => break,
                }
            }
            match e {
                syn::Expr::Path(p) if p.path.get_ident().is_some() => lname_owned = p.path.get_ident().unwrap().to_string(),
                _ => return Err(format!("lost anchor: `{lname0}` is not an identifier in {path}")),
            }
        }
        let lname = lname_owned.as_str();
        struct FindLet<'x> { name: String, found: Option<&'x syn::Local> }
        impl<'ast> syn::visit::Visit<'ast> for FindLet<'ast> {
            fn visit_local(&mut self, l: &'ast syn::Local) {
                if self.found.is_none() {
                    let id = match &l.pat {
                        syn::Pat::Ident(pi) => Some(pi.ident.to_string()),
                        syn::Pat::Type(pt) => match &*pt.pat { syn::Pat::Ident(pi) => Some(pi.ident.to_string()), _ => None },
                        _ => None,
                    };
                    if id.as_deref() == Some(self.name.as_str()) && l.init.is_some() {
                        self.found = Some(l);
                    }
                }
                syn::visit::visit_local(self, l);
            }
        }
        let mut init: syn::Expr;
        if let Some(rname) = lname.strip_prefix('~') {
            // L29f `range_of=<i>`: the bounds of the first `for <i> in a..b` / `a..=b` loop, as the pair (a, b) of a
            // half-open range (`a..=b` gives (a, b + 1)): a contract can say which indices a loop visits
            struct FindFor<'x> { name: String, found: Option<&'x syn::ExprForLoop> }
            impl<'ast> syn::visit::Visit<'ast> for FindFor<'ast> {
                fn visit_expr_for_loop(&mut self, f: &'ast syn::ExprForLoop) {
                    if self.found.is_none() && matches!(&*f.pat, syn::Pat::Ident(pi) if pi.ident == self.name) {
                        self.found = Some(f);
                    }
                    syn::visit::visit_expr_for_loop(self, f);
                }
            }
            let mut ff = FindFor { name: rname.to_string(), found: None };
            syn::visit::Visit::visit_block(&mut ff, f.block);
            let Some(fl) = ff.found else { return Err(format!("lost anchor: no `for {rname} in ..` loop in {path}")) };
            let mut r = &*fl.expr;
            while let syn::Expr::Paren(p) = r { r = &p.expr; }
            let syn::Expr::Range(rg) = r else { return Err(format!("construct outside rule list (lift): the loop over `{rname}` in {path} does not iterate over a range")) };
            let (Some(a), Some(b)) = (&rg.start, &rg.end) else { return Err(format!("construct outside rule list (lift): open range in the loop over `{rname}`")) };
            init = if matches!(rg.limits, syn::RangeLimits::Closed(_)) {
                syn::parse2(quote::quote!(((#a), (#b) + 1))).map_err(|e| e.to_string())?
            } else {
                syn::parse2(quote::quote!(((#a), (#b)))).map_err(|e| e.to_string())?
            };
        } else if let Some(aname) = lname.strip_prefix('=') {
            // L29c `assign_of=<var>`: the right-hand side of the first plain assignment `var = <expr>;`
            // `assign_of=<var>#<n>`: the n-th (0-based, source order) assignment; compound assignments `var += e`,
            // `var -= e` count as assignments and give `e`
            let (aname, nth) = match aname.split_once('#') {
                Some((a, n)) => (a, n.parse::<usize>().map_err(|_| "assign_of=<var>#<n>")?),
                None => (aname, 0usize),
            };
            struct FindAssign<'x> { name: String, found: Option<&'x syn::Expr>, skip: usize }
            impl<'ast> syn::visit::Visit<'ast> for FindAssign<'ast> {
                fn visit_expr_binary(&mut self, b: &'ast syn::ExprBinary) {
                    if self.found.is_none() && matches!(b.op, syn::BinOp::AddAssign(_) | syn::BinOp::SubAssign(_)) {
                        // `*var += e` (a `&mut` obtained from a map entry) counts as an assignment to `var`
                        let mut left = &*b.left;
                        if let syn::Expr::Unary(u) = left { if matches!(u.op, syn::UnOp::Deref(_)) { left = &*u.expr; } }
                        if let syn::Expr::Path(p) = left {
                            if p.path.is_ident(&self.name) {
                                if self.skip == 0 {
                                    self.found = Some(&b.right);
                                } else {
                                    self.skip -= 1;
                                }
                            }
                        }
                    }
                    syn::visit::visit_expr_binary(self, b);
                }
                fn visit_expr_assign(&mut self, a: &'ast syn::ExprAssign) {
                    if self.found.is_none() {
                        // `var = e` or an element assignment `var[..] = e`
                        let mut l = &*a.left;
                        if let syn::Expr::Index(ix) = l {
                            l = &*ix.expr;
                        }
                        if let syn::Expr::Path(p) = l {
                            if p.path.is_ident(&self.name) {
                                if self.skip == 0 {
                                    self.found = Some(&a.right);
                                } else {
                                    self.skip -= 1;
                                }
                            }
                        }
                    }
                    syn::visit::visit_expr_assign(self, a);
                }
            }
            let mut fa = FindAssign { name: aname.to_string(), found: None, skip: nth };
            syn::visit::Visit::visit_block(&mut fa, f.block);
            let Some(r) = fa.found else { return Err(format!("lost anchor: no assignment to `{aname}` in {path}")) };
            init = r.clone();
        } else {
            let mut fl = FindLet { name: lname.to_string(), found: None };
            syn::visit::Visit::visit_block(&mut fl, f.block);
            let Some(l) = fl.found else { return Err(format!("lost anchor: no binding of `{lname}` in {path}")) };
            init = (*l.init.as_ref().unwrap().expr).clone();
        }
        // L29g: an initialiser `e?` lifted with `ret=Result<..>` is `e` itself (the function returns what `?` inspects)
        if blk.opt("ret").map(|r| r.trim_start().starts_with("Result<")).unwrap_or(false) {
            if let syn::Expr::Try(t) = &init {
                init = (*t.expr).clone();
            }
        }
        // L29b `addend=<k>/<n>`: the initialiser is a chain of exactly n top-level `+` operands; lift the k-th (0-based,
        // source order) alone.  Lets a contract speak about one summand of `let h = A + B + C;` at a time.
        if let Some(spec) = blk.opt("addend") {
            let (k, n) = spec.split_once('/').ok_or("addend=<k>/<n>")?;
            let (k, n): (usize, usize) = (k.parse().map_err(|_| "addend=<k>/<n>")?, n.parse().map_err(|_| "addend=<k>/<n>")?);
            fn flatten(e: &syn::Expr, out: &mut Vec<syn::Expr>) {
                match e {
                    syn::Expr::Binary(b) if matches!(b.op, syn::BinOp::Add(_)) => {
                        flatten(&b.left, out);
                        out.push((*b.right).clone());
                    }
                    _ => out.push(e.clone()),
                }
            }
            let mut parts = Vec::new();
            flatten(&init, &mut parts);
            if parts.len() != n || k >= n {
                return Err(format!("lost anchor: the initialiser of `{lname}` in {path} has {} addends, the template expects {n}", parts.len()));
            }
            init = parts[k].clone();
        }
        params.clear();
        for kv in blk.opt("tail_locals").unwrap_or("").split(';').filter(|x| !x.is_empty()) {
            let (n, t) = kv.split_once(':').ok_or("tail_locals=name:type;...")?;
            params.push((n.trim().to_string(), t.trim().to_string()));
        }
        // single lowercase identifiers the initialiser mentions must be listed (paths, method names and types are not variables)
        struct Vars(Vec<String>);
        impl<'ast> syn::visit::Visit<'ast> for Vars {
            fn visit_expr_path(&mut self, p: &'ast syn::ExprPath) {
                if let Some(i) = p.path.get_ident() {
                    self.0.push(i.to_string());
                }
            }
            // the name of a called function is not a variable
            fn visit_expr_call(&mut self, c: &'ast syn::ExprCall) {
                if !matches!(&*c.func, syn::Expr::Path(_)) {
                    syn::visit::Visit::visit_expr(self, &c.func);
                }
                for a in &c.args {
                    syn::visit::Visit::visit_expr(self, a);
                }
            }
        }
        // L29d: immutable `let`s of the same block, before the binding / assignment, that the initialiser reads and the
        // directive does not list are pulled in front of it - provided no statement between such a `let` and the anchor
        // assigns anything the `let` reads (a split initialiser keeps its anchor)
        let mut pulled: Vec<syn::Stmt> = Vec::new();
        let mut self_note_l29e = false;
        {
            // the block and the index of the statement that holds the anchor (the `let`, or the n-th assignment)
            struct FindBlk<'x> { name: String, assign: bool, skip: usize, found: Option<(&'x syn::Block, usize)>, stack: Vec<(&'x syn::Block, usize)>, path: Vec<(&'x syn::Block, usize)> }
            impl<'ast> FindBlk<'ast> {
                fn is_anchor(&mut self, st: &'ast syn::Stmt) -> bool {
                    if let Some(rn) = self.name.strip_prefix('~') {
                        // `range_of=<i>`: the anchor is the `for <i> in ..` statement
                        if let syn::Stmt::Expr(syn::Expr::ForLoop(fl), _) = st {
                            return matches!(&*fl.pat, syn::Pat::Ident(pi) if pi.ident == rn);
                        }
                        return false;
                    }
                    if !self.assign {
                        if let syn::Stmt::Local(l) = st {
                            let id = match &l.pat {
                                syn::Pat::Ident(pi) => Some(pi.ident.to_string()),
                                syn::Pat::Type(pt) => match &*pt.pat { syn::Pat::Ident(pi) => Some(pi.ident.to_string()), _ => None },
                                _ => None,
                            };
                            return id.as_deref() == Some(self.name.as_str()) && l.init.is_some();
                        }
                        return false;
                    }
                    let syn::Stmt::Expr(e, _) = st else { return false };
                    let left = match e {
                        syn::Expr::Assign(a) => &*a.left,
                        syn::Expr::Binary(b) if matches!(b.op, syn::BinOp::AddAssign(_) | syn::BinOp::SubAssign(_)) => &*b.left,
                        _ => return false,
                    };
                    let base = if let syn::Expr::Index(ix) = left { &*ix.expr } else { left };
                    if matches!(base, syn::Expr::Path(p) if p.path.is_ident(&self.name)) {
                        if self.skip == 0 {
                            return true;
                        }
                        self.skip -= 1;
                    }
                    false
                }
            }
            impl<'ast> syn::visit::Visit<'ast> for FindBlk<'ast> {
                fn visit_block(&mut self, b: &'ast syn::Block) {
                    if self.found.is_none() {
                        for (k, st) in b.stmts.iter().enumerate() {
                            if self.is_anchor(st) {
                                self.found = Some((b, k));
                                self.path = self.stack.clone();
                                self.path.push((b, k));
                                return;
                            }
                            // nested blocks of earlier statements are searched in source order
                            self.stack.push((b, k));
                            syn::visit::visit_stmt(self, st);
                            self.stack.pop();
                            if self.found.is_some() {
                                return;
                            }
                        }
                    }
                }
            }
            let (aname, assign, skip) = match lname.strip_prefix('=') {
                Some(a) => match a.split_once('#') { Some((x, n)) => (x.to_string(), true, n.parse::<usize>().unwrap_or(0)), None => (a.to_string(), true, 0) },
                None => (lname.to_string(), false, 0),
            };
            let mut fb = FindBlk { name: aname, assign, skip, found: None, stack: vec![], path: vec![] };
            syn::visit::Visit::visit_block(&mut fb, f.block);
            if fb.found.is_some() {
                // (level, index) of every pulled statement: source order = outer blocks first, then by position
                let mut pulled_at: Vec<(usize, usize)> = Vec::new();
                let path = fb.path.clone();
                loop {
                    let mut reads = Vars(vec![]);
                    syn::visit::Visit::visit_expr(&mut reads, &init);
                    for st in &pulled {
                        syn::visit::Visit::visit_stmt(&mut reads, st);
                    }
                    let mut own_pulled: Vec<String> = Vec::new();
                    for st in &pulled {
                        if let syn::Stmt::Local(l) = st {
                            if let syn::Pat::Ident(pi) = &l.pat {
                                own_pulled.push(pi.ident.to_string());
                            }
                        }
                    }
                    let mut picked: Option<(usize, usize)> = None;
                    // innermost block first; in an enclosing block (L29e) the statement that contains the anchor counts
                    // as "between" as a whole - it may run many times (loop body)
                    'levels: for lvl in (0..path.len()).rev() {
                    let (b, k0) = path[lvl];
                    let k_end = if lvl + 1 == path.len() { k0 } else { k0 + 1 };
                    for k in (0..k0).rev() {
                        if pulled_at.contains(&(lvl, k)) { continue; }
                        if let syn::Stmt::Local(l) = &b.stmts[k] {
                            if let (syn::Pat::Ident(pi), Some(li)) = (&l.pat, &l.init) {
                                let n = pi.ident.to_string();
                                if pi.mutability.is_none() && reads.0.contains(&n) && !params.iter().any(|(p, _)| *p == n) && !own_pulled.contains(&n) {
                                    // nothing between this `let` and the anchor may assign what the `let` reads
                                    let lreads = Lifter::idents_of(&li.expr);
                                    let between = syn::Block { brace_token: Default::default(), stmts: b.stmts[k + 1..k_end].to_vec() };
                                    let assigned = Lifter::assigned_vars(&between);
                                    let mut index_assigned: Vec<String> = Vec::new();
                                    for st in &between.stmts {
                                        if let syn::Stmt::Expr(syn::Expr::Assign(a), _) = st {
                                            if let syn::Expr::Index(ix) = &*a.left {
                                                if let syn::Expr::Path(p) = &*ix.expr {
                                                    if let Some(i) = p.path.get_ident() {
                                                        index_assigned.push(i.to_string());
                                                    }
                                                }
                                            }
                                        }
                                    }
                                    if !assigned.iter().chain(index_assigned.iter()).any(|a| lreads.contains(a) || *a == n) {
                                        picked = Some((lvl, k));
                                        break 'levels;
                                    }
                                }
                            }
                        }
                    }
                    }
                    match picked {
                        Some((lvl, k)) => {
                            if lvl + 1 != path.len() {
                                self_note_l29e = true;
                            }
                            pulled.push(path[lvl].0.stmts[k].clone());
                            pulled_at.push((lvl, k));
                        }
                        None => break,
                    }
                }
                // source order: the statements were collected from the anchor backwards by need, sort by (level, position)
                let mut both: Vec<((usize, usize), syn::Stmt)> = pulled_at.iter().cloned().zip(pulled.drain(..)).collect();
                both.sort_by_key(|(at, _)| *at);
                pulled = both.into_iter().map(|(_, st)| st).collect();
            }
        }
        let mut vs = Vars(vec![]);
        syn::visit::Visit::visit_expr(&mut vs, &init);
        let mut own: Vec<String> = Vec::new();
        {
            struct PB<'z>(&'z mut Vec<String>);
            impl<'ast, 'z> syn::visit::Visit<'ast> for PB<'z> {
                fn visit_pat_ident(&mut self, i: &'ast syn::PatIdent) {
                    self.0.push(i.ident.to_string());
                }
            }
            syn::visit::Visit::visit_expr(&mut PB(&mut own), &init);
            for st in &pulled {
                syn::visit::Visit::visit_stmt(&mut vs, st);
                syn::visit::Visit::visit_stmt(&mut PB(&mut own), st);
            }
        }
        for v_ in &vs.0 {
            // the receiver is listed as `self_` (its lifted name)
            if v_ == "self" && params.iter().any(|(n, _)| n == "self_") {
                continue;
            }
            if !own.contains(v_) && !params.iter().any(|(n, _)| n == v_) && v_.chars().next().map(|c| c.is_lowercase()).unwrap_or(false) {
                return Err(format!("construct outside rule list (lift): the initialiser of `{lname}` reads `{v_}`, which is not listed in tail_locals"));
            }
        }
        let mut stmts_ = pulled;
        stmts_.push(syn::Stmt::Expr(init, None));
        synth_block = Some(syn::Block { brace_token: Default::default(), stmts: stmts_ });
    }
    let fblock: &syn::Block = synth_block.as_ref().unwrap_or(f.block);
    let ret_ty = match &f.sig.output {
        _ if blk.opt("closure").is_some() || blk.opt("tail_from").is_some() || blk.opt("let_of").is_some() || (blk.opt("assign_of").is_some() || blk.opt("range_of").is_some()) => blk.opt("ret").ok_or("lift: closure= / tail_from= need ret=<type>")?.to_string(),
        // `ret=<type>` overrides a return type the type lifter cannot read (qualified associated types)
        _ if blk.opt("ret").is_some() => blk.opt("ret").unwrap().to_string(),
        syn::ReturnType::Default => match &out_param {
            Some(p) => params.iter().find(|(n, _)| n == p).unwrap().1.clone(),
            None => return Err("construct outside rule list (lift): function returns () and has no &mut parameter".into()),
        },
        // observe-only lifts never use the function's own result: a return type outside the subset is opaque
        syn::ReturnType::Type(_, t) => match lift_type(reg, t, self_ty.as_deref()) {
            Ok(t) => t,
            Err(_) if blk.flag("observe_only") => "LOpaque".to_string(),
            Err(e) => return Err(format!("return type: {e}")),
        },
    };
    if !matches!(f.sig.output, syn::ReturnType::Default) {
        out_param = None;
    }
    let mut outputs: Vec<(String, Option<String>)> = if blk.flag("observe_only") { vec![] } else { vec![(name.clone(), None)] };
    // names the function binds (for `x__terms`: a `let x = <array>.sum();`)
    let bound_names: Vec<String> = {
        struct B(Vec<String>);
        impl<'ast> syn::visit::Visit<'ast> for B {
            fn visit_pat_ident(&mut self, i: &'ast syn::PatIdent) {
                self.0.push(i.ident.to_string());
            }
            fn visit_local(&mut self, l: &'ast syn::Local) {
                if let (Some(init), syn::Pat::Ident(pi)) = (&l.init, &l.pat) {
                    if let syn::Expr::MethodCall(m) = &*init.expr {
                        if m.method == "sum" && m.args.is_empty() {
                            self.0.push(format!("{}__terms", pi.ident));
                        }
                    }
                }
                syn::visit::visit_local(self, l);
            }
        }
        let mut b = B(vec![]);
        syn::visit::Visit::visit_block(&mut b, fblock);
        b.0
    };
    let mut text = String::new();
    let mut unbound_notes: Vec<(String, usize, String)> = Vec::new();
    // L17d: `@ret` names the identifier the function returns (`x` or `Ok(x)` in tail position), so that an
    // observable follows the value that leaves the function and not the name of a local
    let ret_ident: Option<String> = match fblock.stmts.last() {
        Some(syn::Stmt::Expr(e, None)) => {
            let mut e = e;
            if let syn::Expr::Call(c) = e {
                if let syn::Expr::Path(p) = &*c.func {
                    if p.path.is_ident("Ok") && c.args.len() == 1 {
                        e = &c.args[0];
                    }
                }
            }
            match e {
                syn::Expr::Path(p) => p.path.get_ident().map(|i| i.to_string()),
                _ => None,
            }
        }
        _ => None,
    };
    if let Some(obs) = blk.opt("observe") {
        for o in obs.split(',') {
            let (o, decl_ty) = match o.split_once(':') {
                Some((a, t)) => (a.trim(), Some(t.trim().to_string())),
                None => (o.trim(), None),
            };
            // `@ret` / `@ret__terms` resolve to the returned identifier (if the tail is not an identifier they stay
            // unresolved and are treated as unbound)
            let resolved: String;
            let (o, ret_alias) = if o == "@ret" || o == "@ret__terms" {
                match &ret_ident {
                    Some(r) => {
                        resolved = if o == "@ret" { r.clone() } else { format!("{r}__terms") };
                        (resolved.as_str(), Some(o.trim_start_matches('@').to_string()))
                    }
                    None => (o, Some(o.trim_start_matches('@').to_string())),
                }
            } else {
                (o, None)
            };
            let is_bound = if let Some(rest) = o.strip_prefix('@') {
                // the function calls `f`
                let fname = rest.split('.').next().unwrap_or("").split('#').next().unwrap_or("").to_string();
                struct C(String, bool);
                impl<'ast> syn::visit::Visit<'ast> for C {
                    fn visit_expr_call(&mut self, c: &'ast syn::ExprCall) {
                        if let syn::Expr::Path(p) = &*c.func {
                            let joined: String = p.path.segments.iter().map(|s| s.ident.to_string()).collect::<Vec<_>>().join("_");
                            if p.path.segments.last().map(|s| s.ident == self.0).unwrap_or(false) || joined == self.0 {
                                self.1 = true;
                            }
                        }
                        syn::visit::visit_expr_call(self, c);
                    }
                }
                impl C {
                    fn _unused(&self) {}
                }
                struct M<'a>(&'a str, bool);
                impl<'ast, 'a> syn::visit::Visit<'ast> for M<'a> {
                    fn visit_expr_method_call(&mut self, m: &'ast syn::ExprMethodCall) {
                        if m.method == self.0 {
                            self.1 = true;
                        }
                        syn::visit::visit_expr_method_call(self, m);
                    }
                }
                let mut c = C(fname, false);
                syn::visit::Visit::visit_block(&mut c, fblock);
                let mut mm = M(&c.0, false);
                syn::visit::Visit::visit_block(&mut mm, fblock);
                c.1 = c.1 || mm.1;
                c.1
            } else {
                bound_names.iter().any(|b| b == o)
            };
            let oname_part = match (&ret_alias, o.strip_prefix('@')) {
                (Some(a), _) => a.clone(),
                (None, Some(rest)) => rest.replace('.', "_arg").replace('#', "_call"),
                (None, None) => o.to_string(),
            };
            if !is_bound {
                // L17b: an observable the function no longer binds is an arbitrary value of its declared type,
                // so that the contract about it fails or holds on its own merits
                let Some(t) = decl_ty else {
                    return Err(format!("lost anchor: observable `{o}` is not bound in {path}"));
                };
                let rty = if ret_ty.starts_with("Result<") { format!("Result<{t}, LErr>") } else { t };
                let ps: Vec<String> = params.iter().map(|(n, t)| format!("{n}: {t}")).collect();
                text.push_str(&format!("pub uninterp spec fn {name}__{oname_part}({}) -> {rty};   // L17b: `{o}` is not bound by the function\n", ps.join(", ")));
                unbound_notes.push(("L17b".into(), 0, format!("observable `{o}` is not bound by the function: arbitrary value")));
                continue;
            }
            outputs.push((format!("{name}__{oname_part}"), Some(o.to_string())));
        }
    }
    let mut notes_all: Vec<(String, usize, String)> = Vec::new();
    let mut havocs_all: Vec<String> = Vec::new();
    let mut result_tys = Vec::new();
    for (oname, observe) in &outputs {
        let mut env0 = HashMap::new();
        for (n, t) in &params {
            env0.insert(n.clone(), t.clone());
        }
        let mut l = Lifter {
            reg,
            self_ty: self_ty.clone(),
            fn_name: name.clone(),
            params: params.clone(),
            env: vec![env0],
            havocs: vec![],
            local_closures: HashMap::new(),
            notes: vec![],
            src: &src,
            offs: &offs,
            ret_ty: ret_ty.clone(),
            tmp: 0,
            hoist: vec![],
            out_param: out_param.clone(),
            observe: observe.clone(),
            calls_seen: HashMap::new(),
            tolerant: blk.flag("tolerant") && observe.is_some(),
            closure_base: vec![],
            named_sums: blk.flag("named_sums"),
            consts: if blk.flag("const_values") {
                std::iter::once(&file).chain(consts_from.iter()).flat_map(|f| ctx.files[f].1.items.iter()).filter_map(|it| match it { syn::Item::Const(c) => Some((c.ident.to_string(), (*c.expr).clone())), _ => None }).collect()
            } else { HashMap::new() },
            const_tables: std::iter::once(&file).chain(consts_from.iter()).flat_map(|f| ctx.files[f].1.items.iter()).filter_map(|it| match it { syn::Item::Const(c) if matches!(&*c.ty, syn::Type::Array(a) if matches!(&*a.elem, syn::Type::Path(p) if p.path.is_ident("f64"))) => Some(c.ident.to_string()), _ => None }).collect(),
            const_stack: vec![],
            dirty_captured: vec![],
            loopvars: blk.opt("loopvars").map(|t| t.split(';').filter_map(|kv| kv.split_once(':').map(|(a, b)| (a.trim().to_string(), b.trim().to_string()))).collect()).unwrap_or_default(),
            shared: if blk.flag("share_observed") { outputs.iter().filter_map(|(n, o)| o.clone().map(|o| (o, n.clone()))).collect() } else { HashMap::new() },
            rebound_params: vec![],
            in_value: 0,
        };
        let body = l.stmts_with_cont(&fblock.stmts, None)?;
        let rty = if observe.is_some() || ret_ty.contains('?') { body.ty.clone() } else { ret_ty.clone() };
        if observe.is_none() && body.ty.replace(' ', "") != ret_ty.replace(' ', "") && !body.ty.contains('?') && !ret_ty.contains('?') {
            return Err(format!("construct outside rule list (lift): body of {path} has type {} but the signature says {}", body.ty, ret_ty));
        }
        for h in &l.havocs {
            if !havocs_all.contains(h) {
                havocs_all.push(h.clone());
            }
        }
        if observe.is_none() {
            notes_all = l.notes.clone();
        }
        let ps: Vec<String> = params.iter().map(|(n, t)| format!("{n}: {t}")).collect();
        let opaque = if observe.is_some() && blk.flag("share_observed") { "#[verifier::opaque]\n" } else { "" };
        text.push_str(&format!("{opaque}pub open spec fn {oname}({}) -> {rty} {{\n    {}\n}}\n", ps.join(", "), body.text));
        result_tys.push((oname.clone(), rty));
    }
    // module constants (L21) are declared once per unit
    let mut havocs_unit: Vec<String> = Vec::new();
    for h in &havocs_all {
        if let Some(rest) = h.strip_prefix("pub uninterp spec fn K_").or_else(|| h.strip_prefix("pub open spec fn K_")).or_else(|| h.strip_prefix("#[verifier::opaque] pub open spec fn K_")) {
            let cname = format!("K_{}", rest.split('(').next().unwrap_or(""));
            if ctx.lift.fns.contains_key(&cname) {
                continue;
            }
            ctx.lift.fns.insert(cname, (vec![], "real".to_string()));
        }
        havocs_unit.push(h.clone());
    }
    let havocs_all = havocs_unit;
    let text = format!("{}{}{}", havocs_all.join("\n"), if havocs_all.is_empty() { "" } else { "\n" }, text);
    // register for later units
    let ptys: Vec<String> = params.iter().map(|(_, t)| t.clone()).collect();
    let key = name.clone();
    let (s0, e0) = (offs.range(&src, f.sig.span()).0, offs.range(&src, f.block.span()).1);
    notes_all.extend(unbound_notes);
    let rewrites: Vec<Value> = notes_all.iter().map(|(r, l, n)| json!({"rule": r, "line": l, "note": n})).collect();
    let rep = json!({
        "item": path, "file": file, "mode": "lift",
        "src_lines": [line_of(&src, s0), line_of(&src, e0)], "src_bytes": [s0, e0],
        "rewrites": rewrites,
        "lifted_as": result_tys.iter().map(|(n, t)| format!("{n} -> {t}")).collect::<Vec<_>>(),
        "dropped": ["rounding, overflow, NaN, signed zeros (A11)", "physical units (L11)"],
    });
    for (n, t) in result_tys {
        ctx.lift.fns.insert(n, (ptys.clone(), t));
    }
    let _ = key;
    Ok((text, rep))
}
