//! Token-tree patterns with `$name` metavariables (one token tree each).
//! `$name` matches exactly one token tree; a repeated `$name` must match the same text.
//! `$..name` matches any (possibly empty) run of token trees up to the end of the group.

use proc_macro2::{Delimiter, Span, TokenStream, TokenTree};
use std::collections::HashMap;
use std::str::FromStr;

#[derive(Debug, Clone)]
pub enum Pat {
    Tok(String),
    Group(Delimiter, Vec<Pat>),
    Var(String),
    Rest(String),
    /// `$,name` — a (non-empty) run of token trees up to the next top-level comma / end of group
    UntilComma(String),
}

pub fn parse_pattern(s: &str) -> Result<Vec<Pat>, String> {
    let ts = TokenStream::from_str(s).map_err(|e| format!("bad pattern `{s}`: {e}"))?;
    Ok(conv(ts))
}

fn conv(ts: TokenStream) -> Vec<Pat> {
    let toks: Vec<TokenTree> = ts.into_iter().collect();
    let mut out = Vec::new();
    let mut i = 0;
    while i < toks.len() {
        match &toks[i] {
            TokenTree::Punct(p) if p.as_char() == '$' => {
                // $name  or  $..name
                if let Some(TokenTree::Ident(id)) = toks.get(i + 1) {
                    out.push(Pat::Var(id.to_string()));
                    i += 2;
                    continue;
                }
                if let (Some(TokenTree::Punct(a)), Some(TokenTree::Ident(id))) = (toks.get(i + 1), toks.get(i + 2)) {
                    if a.as_char() == ',' {
                        out.push(Pat::UntilComma(id.to_string()));
                        i += 3;
                        continue;
                    }
                }
                if let (Some(TokenTree::Punct(a)), Some(TokenTree::Punct(b)), Some(TokenTree::Ident(id))) =
                    (toks.get(i + 1), toks.get(i + 2), toks.get(i + 3))
                {
                    if a.as_char() == '.' && b.as_char() == '.' {
                        out.push(Pat::Rest(id.to_string()));
                        i += 4;
                        continue;
                    }
                }
                out.push(Pat::Tok("$".into()));
                i += 1;
            }
            TokenTree::Group(g) => {
                out.push(Pat::Group(g.delimiter(), conv(g.stream())));
                i += 1;
            }
            t => {
                out.push(Pat::Tok(t.to_string()));
                i += 1;
            }
        }
    }
    out
}

/// A binding: the span covering the matched token trees (None for an empty `$..rest`).
pub type Bindings = HashMap<String, (Option<(Span, Span)>, String)>;

pub fn matches(pat: &[Pat], ts: TokenStream, b: &mut Bindings) -> bool {
    let toks: Vec<TokenTree> = ts.into_iter().collect();
    match_seq(pat, &toks, b)
}

fn match_seq(pat: &[Pat], toks: &[TokenTree], b: &mut Bindings) -> bool {
    let mut ti = 0;
    for (pi, p) in pat.iter().enumerate() {
        match p {
            Pat::Rest(name) => {
                if pi + 1 != pat.len() {
                    return false; // only supported in tail position
                }
                let rest = &toks[ti..];
                let text: String = rest.iter().map(|t| t.to_string()).collect::<Vec<_>>().join(" ");
                let sp = if rest.is_empty() {
                    None
                } else {
                    Some((rest[0].span(), rest[rest.len() - 1].span()))
                };
                b.insert(name.clone(), (sp, text));
                return true;
            }
            _ => {}
        }
        if let Pat::UntilComma(name) = p {
            let start = ti;
            while ti < toks.len() && !matches!(&toks[ti], TokenTree::Punct(q) if q.as_char() == ',') {
                ti += 1;
            }
            if ti == start {
                return false;
            }
            let run = &toks[start..ti];
            let text: String = run.iter().map(|t| t.to_string()).collect::<Vec<_>>().join(" ");
            b.insert(name.clone(), (Some((run[0].span(), run[run.len() - 1].span())), text));
            continue;
        }
        let Some(t) = toks.get(ti) else { return false };
        match p {
            Pat::Tok(s) => {
                if matches!(t, TokenTree::Group(_)) || &t.to_string() != s {
                    return false;
                }
            }
            Pat::Var(name) => {
                let text = t.to_string();
                if let Some((_, prev)) = b.get(name) {
                    if prev != &text {
                        return false;
                    }
                } else {
                    b.insert(name.clone(), (Some((t.span(), t.span())), text));
                }
            }
            Pat::Group(d, inner) => match t {
                TokenTree::Group(g) if g.delimiter() == *d => {
                    let it: Vec<TokenTree> = g.stream().into_iter().collect();
                    if !match_seq(inner, &it, b) {
                        return false;
                    }
                }
                _ => return false,
            },
            Pat::Rest(_) | Pat::UntilComma(_) => unreachable!(),
        }
        ti += 1;
    }
    ti == toks.len()
}

/// does the token stream contain the pattern as a contiguous sub-sequence at any nesting depth?
pub fn contains(pat: &[Pat], ts: TokenStream) -> bool {
    let toks: Vec<TokenTree> = ts.into_iter().collect();
    contains_seq(pat, &toks)
}

fn contains_seq(pat: &[Pat], toks: &[TokenTree]) -> bool {
    if pat.is_empty() {
        return true;
    }
    for start in 0..toks.len() {
        if start + pat.len() <= toks.len() {
            let mut b = Bindings::new();
            if match_seq(pat, &toks[start..start + pat.len()], &mut b) {
                return true;
            }
        }
    }
    for t in toks {
        if let TokenTree::Group(g) = t {
            let it: Vec<TokenTree> = g.stream().into_iter().collect();
            if contains_seq(pat, &it) {
                return true;
            }
        }
    }
    false
}
