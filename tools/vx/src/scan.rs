use crate::template::Block;
use crate::Ctx;
use serde_json::Value;
pub fn scan(_ctx: &mut Ctx, _blk: &Block) -> Result<(String, Value), String> {
    Err("not implemented".into())
}
