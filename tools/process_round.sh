#!/bin/bash
# usage: tools/process_round.sh id1 id2 ...   - confirm and check every delivered seeded change / refactoring set, sequentially
cd "$(dirname "$0")/.."
for id in "$@"; do
  [ -f /tmp/seeded/$id/meta.json ] || { echo "$id: not delivered"; continue; }
  [ -f seeded/$id/meta.json ] && { echo "$id: already processed"; continue; }
  case $id in
    R*) tools/harmless.py $id > build/seeded_$id.log 2>&1 ;;
    *)  tools/seeded.py $id > build/seeded_$id.log 2>&1 ;;
  esac
  echo "$id: processed"
done
