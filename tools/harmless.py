#!/usr/bin/env python3
"""Run the checks against behaviour-preserving refactorings written by an independent sub-agent.
usage: tools/harmless.py <Rk>    (reads /tmp/seeded/<Rk>/meta.json, patches there)
For each patch: confirm (suite passes with it - unless --no-suite), apply it to a scratch copy of /repo's working tree,
run `./check <prop> --repo <copy>` for every claimed property whose units mention a changed file, and record exit
codes: 0 quiet (required), 2 undecided (tolerated, recorded), 1 FALSE ALARM.  Results -> /verif/seeded/<Rk>/."""
import json, os, re, shutil, subprocess, sys, time, tomllib
ROOT = os.path.dirname(os.path.dirname(os.path.abspath(__file__)))
def sh(cmd, cwd=None, env=None, timeout=3600):
    p = subprocess.run(cmd, cwd=cwd, env=env, shell=isinstance(cmd, str), capture_output=True, text=True, timeout=timeout)
    return p.returncode, p.stdout + p.stderr
def props_for(files):
    units = tomllib.load(open(os.path.join(ROOT, "contracts/units.toml"), "rb"))["unit"]
    props = set()
    for u in units:
        texts = [json.dumps(u)]
        if u.get("template") and not u["template"].startswith("@"):
            t = open(os.path.join(ROOT, u["template"])).read()
            for k, v in (u.get("vars") or {}).items():
                t = t.replace("{{" + k + "}}", v)
            texts.append(t)
        blob = "\n".join(texts)
        if any(f in blob for f in files) or any(src in f for src in u.get("sources", []) for f in files):
            props.add(u["property"]); props.update(u.get("also", []))
    claimed = [c["property_id"] for c in json.load(open(os.path.join(ROOT, "MANIFEST.json")))["checks"]]
    return sorted(p for p in props if p in claimed)
def main():
    rid = sys.argv[1]
    src = f"/tmp/seeded/{rid}"
    if not os.path.exists(os.path.join(src, "meta.json")):
        src = os.path.join(ROOT, "seeded", rid)
    meta = json.load(open(os.path.join(src, "meta.json")))
    wt = meta.get("worktree", f"/tmp/wt-{rid}")
    env = dict(os.environ, CARGO_NET_OFFLINE="true", CARGO_TARGET_DIR=os.path.join(wt, "target"))
    dst = os.path.join(ROOT, "seeded", rid)
    os.makedirs(dst, exist_ok=True)
    out = []
    for pinfo in meta["patches"]:
        pf = os.path.join(src, pinfo["file"])
        if os.path.abspath(pf) != os.path.abspath(os.path.join(dst, pinfo["file"])):
            shutil.copy(pf, os.path.join(dst, pinfo["file"]))
        files = re.findall(r"^\+\+\+ b/(\S+)", open(pf).read(), re.M)
        rec = {"patch": pinfo["file"], "what": pinfo.get("what"), "files": files, "checks": []}
        if "--no-suite" not in sys.argv and os.path.isdir(wt):
            sh(["git", "-C", wt, "checkout", "--", "."])
            rc, o = sh(["git", "-C", wt, "apply", pf])
            rec["patch_applies"] = rc == 0
            rc, o = sh("cargo test --workspace --no-fail-fast --offline", cwd=wt, env=env)
            rec["suite_passes_with_patch"] = rc == 0
            rec["suite_tests_passed"] = sum(int(l.split("ok. ")[1].split(" passed")[0]) for l in o.split("\n") if l.startswith("test result: ok."))
            sh(["git", "-C", wt, "checkout", "--", "."])
        sc = f"/var/tmp/verif-harmless-{rid}"
        shutil.rmtree(sc, ignore_errors=True)
        subprocess.run(["rsync", "-a", "--exclude", "target", "--exclude", ".git", "/repo/", sc + "/"], check=True)
        rc, o = sh(f"patch -p1 -d {sc} < {pf}")
        rec["applies_to_repo_copy"] = rc == 0
        for prop in props_for(files):
            t0 = time.time()
            p = subprocess.run([os.path.join(ROOT, "check"), prop, "--repo", sc, "--no-witness"], capture_output=True, text=True)
            rec["checks"].append({"property": prop, "exit": p.returncode,
                                  "violation_lines": [l for l in p.stdout.split("\n") if l.startswith("VIOLATION")],
                                  "undecided": [l[:300] for l in p.stderr.split("\n") if l.startswith("UNDECIDED")],
                                  "wall_s": round(time.time() - t0)})
        shutil.rmtree(sc, ignore_errors=True)
        rec["false_alarms"] = [c["property"] for c in rec["checks"] if c["exit"] == 1]
        rec["undecided"] = [c["property"] for c in rec["checks"] if c["exit"] == 2]
        out.append(rec)
        print(pinfo["file"], "files", files, "->", [(c["property"], c["exit"]) for c in rec["checks"]])
    # keep what earlier runs established (suite results; the first run's check results)
    prev = {}
    if os.path.exists(os.path.join(dst, "meta.json")):
        try:
            prev = {r["patch"]: r for r in json.load(open(os.path.join(dst, "meta.json"))).get("results", [])}
        except (OSError, json.JSONDecodeError, KeyError):
            prev = {}
    for rec in out:
        o = prev.get(rec["patch"])
        if o:
            for k in ("patch_applies", "suite_passes_with_patch", "suite_tests_passed"):
                if k in o and k not in rec:
                    rec[k] = o[k]
            rec["first_run_checks"] = o.get("first_run_checks", o.get("checks"))
    meta["results"] = out
    json.dump(meta, open(os.path.join(dst, "meta.json"), "w"), indent=1)
main()
