//! dexpand — runs the *real* derive macros of feos-derive (its expansion functions, compiled from the working tree's
//! sources; only the `#[proc_macro_derive]` entry points are stripped, see run.py) on the *real* enum definitions of
//! src/eos.rs / src/ideal_gas/mod.rs and prints the generated impl blocks, so that they can be verified like any other
//! extracted code.  Normalisations (reported in the header of the output):
//!   * `#[cfg(..)]` on variants is evaluated for the feature set given on the command line, then removed;
//!   * every variant payload type becomes a type parameter P<k> of the enum (the payloads are arbitrary types that
//!     implement the traits their `#[implement(..)]` attribute promises), and the impl headers the macro wrote for the
//!     plain enum name get the same parameter list.
//! usage: dexpand <repo> <features,comma,separated>
mod derive;
use quote::ToTokens;

fn cfg_holds(meta: &syn::Meta, feats: &[String]) -> bool {
    match meta {
        syn::Meta::NameValue(nv) if nv.path.is_ident("feature") => match &nv.lit {
            syn::Lit::Str(s) => feats.contains(&s.value()),
            _ => false,
        },
        syn::Meta::List(l) if l.path.is_ident("all") => l.nested.iter().all(|n| matches!(n, syn::NestedMeta::Meta(m) if cfg_holds(m, feats))),
        syn::Meta::List(l) if l.path.is_ident("any") => l.nested.iter().any(|n| matches!(n, syn::NestedMeta::Meta(m) if cfg_holds(m, feats))),
        syn::Meta::List(l) if l.path.is_ident("not") => !l.nested.iter().all(|n| matches!(n, syn::NestedMeta::Meta(m) if cfg_holds(m, feats))),
        _ => false,
    }
}

fn find_enum(file: &syn::File, name: &str) -> syn::ItemEnum {
    for it in &file.items {
        if let syn::Item::Enum(e) = it {
            if e.ident == name {
                return e.clone();
            }
        }
    }
    panic!("enum {name} not found")
}

/// evaluate and drop cfg attributes; keep `implement`; drop every other attribute
fn prepare(mut e: syn::ItemEnum, feats: &[String]) -> (syn::ItemEnum, Vec<String>) {
    let mut dropped = Vec::new();
    let mut keep = syn::punctuated::Punctuated::new();
    for mut v in e.variants.into_iter() {
        let mut on = true;
        for a in &v.attrs {
            if a.path.is_ident("cfg") {
                if let Ok(syn::Meta::List(l)) = a.parse_meta() {
                    for n in l.nested.iter() {
                        if let syn::NestedMeta::Meta(m) = n {
                            on = on && cfg_holds(m, feats);
                        }
                    }
                }
            }
        }
        if !on {
            dropped.push(v.ident.to_string());
            continue;
        }
        v.attrs.retain(|a| a.path.is_ident("implement"));
        keep.push(v);
    }
    e.variants = keep;
    e.attrs.clear();
    (e, dropped)
}

fn main() {
    let args: Vec<String> = std::env::args().collect();
    let repo = &args[1];
    let feats: Vec<String> = args.get(2).map(|s| s.split(',').map(|x| x.to_string()).collect()).unwrap_or_default();
    let mut out = String::new();
    for (file, name, derives) in [("src/eos.rs", "ResidualModel", vec!["Components", "Residual"]), ("src/ideal_gas/mod.rs", "IdealGasModel", vec!["Components", "IdealGas"])] {
        let src = std::fs::read_to_string(format!("{repo}/{file}")).expect("read enum file");
        let ast = syn::parse_file(&src).expect("parse enum file");
        let (e, dropped) = prepare(find_enum(&ast, name), &feats);
        let input: syn::DeriveInput = syn::parse2(e.to_token_stream()).expect("derive input");
        out.push_str(&format!("// ---- enum {name} of {file}: variants {:?}; dropped by cfg for features {:?}: {:?}\n",
            e.variants.iter().map(|v| v.ident.to_string()).collect::<Vec<_>>(), feats, dropped));
        // the enum with its payload types abstracted to type parameters
        // one type parameter per variant that carries a model (numbered by variant position)
        let params: Vec<String> = e.variants.iter().enumerate().filter(|(_, v)| v.ident != "NoModel").map(|(k, _)| format!("P{k}")).collect();
        let mut variants = Vec::new();
        let mut impls_attr = Vec::new();
        for (k, v) in e.variants.iter().enumerate() {
            // `NoModel(usize)` carries a component count, not a model: the macros special-case it by name
            if v.ident == "NoModel" {
                variants.push(format!("    {}({}),", v.ident, v.fields.to_token_stream().to_string().trim_start_matches('(').trim_end_matches(')').trim()));
            } else {
                variants.push(format!("    {}(P{k}),", v.ident));
            }
            let mut opts = Vec::new();
            for a in &v.attrs {
                if let Ok(syn::Meta::List(l)) = a.parse_meta() {
                    for nmeta in l.nested.iter() {
                        if let syn::NestedMeta::Meta(syn::Meta::Path(p)) = nmeta {
                            opts.push(p.to_token_stream().to_string());
                        }
                    }
                }
            }
            impls_attr.push(format!("{}:{}", v.ident, opts.join("+")));
        }
        out.push_str(&format!("//@variants {name} {}\n", impls_attr.join(" ")));
        out.push_str(&format!("pub enum {name}<{}> {{\n{}\n}}\n", params.join(", "), variants.join("\n")));
        for d in &derives {
            let ts = match *d {
                "Components" => derive::components::expand_components(input.clone()),
                "Residual" => derive::residual::expand_residual(input.clone()),
                "IdealGas" => derive::ideal_gas::expand_ideal_gas(input.clone()),
                _ => unreachable!(),
            }
            .unwrap_or_else(|e| panic!("derive {d} failed: {e}"));
            // one item per line group, token text as the macro produced it
            let f: syn::File = syn::parse2(ts).expect("macro output parses as items");
            for it in f.items {
                out.push_str(&format!("// ---- generated by #[derive({d})] for {name}\n{}\n", it.to_token_stream()));
            }
        }
    }
    print!("{out}");
}
