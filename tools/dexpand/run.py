#!/usr/bin/env python3
"""usage: tools/dexpand/run.py <repo> <outfile>
Builds the expander against the CURRENT sources of <repo>/feos-derive/src (copied into a scratch crate; the only edit is
that the `#[proc_macro_derive]` entry points of lib.rs, `use proc_macro::TokenStream`, `parse_macro_input` and the dft
modules are removed - they exist only in proc-macro crates) and writes the macro expansion for the enums of the repo."""
import os, re, shutil, subprocess, sys, hashlib
ROOT = os.path.dirname(os.path.dirname(os.path.dirname(os.path.abspath(__file__))))
repo, outfile = sys.argv[1], sys.argv[2]
src = os.path.join(repo, "feos-derive", "src")
# one scratch crate per version of the macro sources (concurrent runs on different trees do not clobber each other)
h = hashlib.sha256()
for f in sorted(os.listdir(src)):
    h.update(open(os.path.join(src, f), "rb").read())
h.update(open(os.path.join(ROOT, "tools/dexpand/src/main.rs"), "rb").read())
work = os.path.join(ROOT, "build", "dexpand-crate-" + h.hexdigest()[:12])
os.makedirs(os.path.join(work, "src", "derive"), exist_ok=True)
shutil.copy(os.path.join(ROOT, "tools/dexpand/Cargo.toml"), os.path.join(work, "Cargo.toml"))
shutil.copy(os.path.join(ROOT, "tools/dexpand/src/main.rs"), os.path.join(work, "src", "main.rs"))
def write_if_changed(path, text):
    if not os.path.exists(path) or open(path).read() != text:
        open(path, "w").write(text)
for f in ("components.rs", "residual.rs", "ideal_gas.rs"):
    write_if_changed(os.path.join(work, "src", "derive", f), open(os.path.join(src, f)).read())
lib = open(os.path.join(src, "lib.rs")).read()
# strip the proc-macro entry points: every `#[proc_macro_derive(..)] pub fn .. { .. }` item (brace matching)
out, i = [], 0
while True:
    j = lib.find("#[proc_macro_derive", i)
    if j < 0:
        out.append(lib[i:]); break
    out.append(lib[i:j])
    k = lib.index("{", lib.index("fn ", j))
    depth = 0
    while True:
        if lib[k] == "{": depth += 1
        elif lib[k] == "}":
            depth -= 1
            if depth == 0: break
        k += 1
    i = k + 1
mod = "".join(out)
drop = [r"^use proc_macro::TokenStream;\n", r"^use syn::\{parse_macro_input, DeriveInput\};\n", r"^use dft::.*\n", r"^use functional_contribution::.*\n",
        r"^mod dft;\n", r"^mod functional_contribution;\n", r"^use components::.*\n", r"^use ideal_gas::.*\n", r"^use residual::.*\n", r"^#!\[warn\(clippy::all\)\]\n"]
for d in drop:
    mod = re.sub(d, "", mod, flags=re.M)
mod = mod.replace("mod components;", "pub mod components;").replace("mod ideal_gas;", "pub mod ideal_gas;").replace("mod residual;", "pub mod residual;")
mod = mod.replace("fn implement(", "pub(crate) fn implement(").replace("const OPT_IMPLS", "pub(crate) const OPT_IMPLS")
write_if_changed(os.path.join(work, "src", "derive", "mod.rs"), mod)
tdir = os.path.join(work, "target")
env = dict(os.environ, CARGO_NET_OFFLINE="true", CARGO_TARGET_DIR=tdir)
p = subprocess.run(["cargo", "build", "--release", "--offline", "-q"], cwd=work, env=env, capture_output=True, text=True)
if p.returncode != 0:
    sys.stderr.write(p.stderr[-3000:]); sys.exit(3)
feats = "pcsaft,epcsaft,gc_pcsaft,saftvrqmie,saftvrmie,pets,uvtheory,dft"
p = subprocess.run([os.path.join(tdir, "release", "dexpand"), repo, feats], capture_output=True, text=True)
if p.returncode != 0:
    sys.stderr.write(p.stderr[-3000:]); sys.exit(3)
open(outfile, "w").write(p.stdout)
