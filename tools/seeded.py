#!/usr/bin/env python3
"""Confirm an independently seeded change and run the checks against it.
usage: tools/seeded.py <id> [--prop Cxx] [--no-suite] [--extra-env K=V ...] [--units a,b] [--tier quick|thorough]
Steps (all in the sub-agent's scratch worktree /tmp/wt-<id>, never in /repo):
  1. patch applies; with the patch the existing suite passes (unless --no-suite) and the demonstration fails;
  2. without the patch the demonstration passes;
  3. the patch is applied to a scratch COPY of /repo's working tree and `./check <prop> --repo <copy>` is run;
  4. /verif/seeded/<id>/{patch.diff, demo.rs, meta.json} are written (meta.json gains `confirmed` and `checks`)."""
import json, os, shutil, subprocess, sys, time
ROOT = os.path.dirname(os.path.dirname(os.path.abspath(__file__)))
def sh(cmd, cwd=None, env=None, timeout=3600):
    p = subprocess.run(cmd, cwd=cwd, env=env, shell=isinstance(cmd, str), capture_output=True, text=True, timeout=timeout)
    return p.returncode, p.stdout + p.stderr
def main():
    sid = sys.argv[1]
    args = sys.argv[2:]
    src = f"/tmp/seeded/{sid}"
    if "--checks-only" in args:
        meta = json.load(open(os.path.join(ROOT, "seeded", sid, "meta.json")))
    else:
        meta = json.load(open(os.path.join(src, "meta.json")))
    prop = meta["property"]
    if "--prop" in args: prop = args[args.index("--prop") + 1]
    wt = meta.get("worktree", f"/tmp/wt-{sid}")
    env = dict(os.environ, CARGO_NET_OFFLINE="true", CARGO_TARGET_DIR=os.path.join(wt, "target"))
    patch = os.path.join(src, "patch.diff")
    confirmed = {}
    rc, out = sh(["git", "-C", wt, "status", "--porcelain", "--untracked-files=no"])
    if out.strip():
        sh(["git", "-C", wt, "checkout", "--", "."])
    demo_path = meta["demo_path"].split()[0] if not meta.get("demo_append_to") else None
    demo_cmd = meta["demo_cmd"]
    def place_demo():
        if meta.get("demo_append_to"):
            with open(os.path.join(wt, meta["demo_append_to"]), "a") as f:
                f.write("\n" + open(os.path.join(src, "demo.rs")).read())
        else:
            dst = os.path.join(wt, demo_path)
            os.makedirs(os.path.dirname(dst), exist_ok=True)
            shutil.copy(os.path.join(src, "demo.rs"), dst)
    def remove_demo():
        if meta.get("demo_append_to"):
            sh(["git", "-C", wt, "checkout", "--", meta["demo_append_to"]])
        else:
            try: os.remove(os.path.join(wt, demo_path))
            except OSError: pass
    checks_only = "--checks-only" in args   # the worktree is gone: only re-run the checks (step 3) and append
    if checks_only:
        src_meta = os.path.join(ROOT, "seeded", sid)
        patch = os.path.join(src_meta, "patch.diff")
    # 2. without the patch the demo passes
    if not checks_only:
      place_demo()
      rc, out = sh(demo_cmd, cwd=wt, env=env)
      confirmed["demo_passes_without_change"] = (rc == 0)
      remove_demo()
      # 1. with the patch
      rc, out = sh(["git", "-C", wt, "apply", patch])
      confirmed["patch_applies"] = (rc == 0)
      if "--no-suite" not in args:
          t0 = time.time()
          rc, out = sh("cargo test --workspace --no-fail-fast --offline", cwd=wt, env=env, timeout=3600)
          passed = sum(int(l.split("ok. ")[1].split(" passed")[0]) for l in out.split("\n") if l.startswith("test result: ok."))
          confirmed["suite_passes_with_change"] = (rc == 0)
          confirmed["suite_tests_passed"] = passed
          confirmed["suite_wall_s"] = round(time.time() - t0)
      place_demo()
      # re-apply if demo placement reset the file (append case applies on top of the patched file)
      rc, out = sh(demo_cmd, cwd=wt, env=env)
      confirmed["demo_fails_with_change"] = (rc != 0)
      confirmed["demo_failure_excerpt"] = "\n".join([l for l in out.split("\n") if "panicked" in l or "FAILED" in l or "assert" in l][:6])
      remove_demo()
      sh(["git", "-C", wt, "checkout", "--", "."])
    # 3. checks against a scratch copy of /repo with the patch
    sc = f"/var/tmp/verif-seeded-{sid}"
    shutil.rmtree(sc, ignore_errors=True)
    subprocess.run(["rsync", "-a", "--exclude", "target", "--exclude", ".git", "/repo/", sc + "/"], check=True)
    rc, out = sh(f"patch -p1 -d {sc} < {patch}")
    checks = []
    cenv = dict(os.environ)
    for a in args:
        if "=" in a and not a.startswith("--"):
            k, v = a.split("=", 1); cenv[k] = v
    cmd = [os.path.join(ROOT, "check"), prop, "--repo", sc]
    if "--tier" in args: cmd += ["--tier", args[args.index("--tier") + 1]]
    if "--units" in args:
        for u in args[args.index("--units") + 1].split(","): cmd += ["--unit", u]
    t0 = time.time()
    p = subprocess.run(cmd, capture_output=True, text=True, env=cenv)
    checks.append({"cmd": " ".join(cmd) + "".join(f" [{a}]" for a in args if "=" in a and not a.startswith("--")), "exit": p.returncode,
                   "violation_lines": [l for l in p.stdout.split("\n") if l.startswith("VIOLATION")],
                   "undecided": [l for l in p.stderr.split("\n") if l.startswith("UNDECIDED")],
                   "summary": [l for l in p.stdout.split("\n") if l.startswith(prop + " [")], "wall_s": round(time.time() - t0)})
    shutil.rmtree(sc, ignore_errors=True)
    # 4. keep
    dst = os.path.join(ROOT, "seeded", sid)
    os.makedirs(dst, exist_ok=True)
    if not checks_only:
        shutil.copy(patch, os.path.join(dst, "patch.diff"))
        shutil.copy(os.path.join(src, "demo.rs"), os.path.join(dst, "demo.rs"))
    old = {}
    if os.path.exists(os.path.join(dst, "meta.json")):
        old = json.load(open(os.path.join(dst, "meta.json")))
    if checks_only:
        meta = dict(old)
    else:
        meta["confirmed_by_me"] = confirmed if "--no-suite" not in args else dict(old.get("confirmed_by_me", {}), **confirmed)
    meta["checks"] = old.get("checks", []) + checks
    meta["detected"] = any(c["exit"] == 1 and c["violation_lines"] for c in meta["checks"])
    json.dump(meta, open(os.path.join(dst, "meta.json"), "w"), indent=1)
    print(json.dumps({"confirmed": meta["confirmed_by_me"], "checks": checks}, indent=1))
main()
