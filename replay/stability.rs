// Witness search for C07 (run by ./check against a scratch copy; integration test of `feos`, --features pcsaft).
// Stability analysis of PC-SAFT propane/butane (and methane/hexane) feeds over temperatures, pressures and compositions
// inside and outside the two-phase region.  For every trial state that `stability_analysis` returns the tangent-plane
// distance is recomputed independently from fugacity coefficients,
//     tpd = sum_i y_i (ln y_i + ln phi_i(y) - ln z_i - ln phi_i(z)),
// and the trial state must be at the temperature and pressure of the analysed state with mole fractions that sum to one
// (feeds in which one component of the model is absent included: such a component must not appear in a returned trial phase);
// anything else is printed as `WITNESS ...`.
use feos::pcsaft::{PcSaft, PcSaftParameters};
use feos_core::parameter::{IdentifierOption, Parameter};
use feos_core::{Contributions, DensityInitialization, SolverOptions, State};
use ndarray::*;
use quantity::*;
use std::sync::Arc;

#[test]
fn vx_witness_stability() {
    let (mut n_states, mut n_trials, mut n_bad) = (0, 0, 0);
    for (a, b) in [("propane", "butane"), ("methane", "hexane")] {
        let Ok(params) = PcSaftParameters::from_json(vec![a, b], "tests/pcsaft/test_parameters.json", None, IdentifierOption::Name) else { continue };
        let eos = Arc::new(PcSaft::new(Arc::new(params)));
        for it in 0..6 {
            let t = (220.0 + 30.0 * it as f64) * KELVIN;
            for ip in 0..8 {
                let p = (0.2 * 2.5f64.powi(ip)) * BAR;
                for ix in 0..7 {
                    // ix = 0 and 6: a component of the model that is absent from the feed
                    let z = match ix { 0 => arr1(&[0.0, 1.0]), 6 => arr1(&[1.0, 0.0]), _ => arr1(&[0.2 * ix as f64 - 0.1, 1.1 - 0.2 * ix as f64]) };
                    for init in [DensityInitialization::Vapor, DensityInitialization::Liquid] {
                        let Ok(s) = State::new_npt(&eos, t, p, &(z.clone() * MOL), init) else { continue };
                        let Ok(trials) = s.stability_analysis(SolverOptions::default()) else { continue };
                        n_states += 1;
                        // C07.1b: a minimisation cut off after one step must not turn into the verdict "stable" when the
                        // full analysis finds a phase of lower Gibbs energy (a cut-off run either errs or agrees)
                        if let Ok(cut) = s.stability_analysis(SolverOptions::new().max_iter(1)) {
                            if cut.is_empty() && !trials.is_empty() {
                                n_bad += 1;
                                if n_bad <= 6 { println!("WITNESS stability_analysis({a}/{b}, T={t}, p={p}, z={z}) with max_iter = 1 returned Ok(no candidate) = 'stable', the full analysis finds {} candidate(s)", trials.len()); }
                            }
                        }
                        let d = s.ln_phi() + s.molefracs.mapv(f64::ln);
                        for y in &trials {
                            n_trials += 1;
                            // 0 ln 0 = 0: a component absent from the trial phase contributes nothing; a trial phase that
                            // contains a component the feed does not have has tpd = +inf
                            let lnphi_y = y.ln_phi();
                            let tpd: f64 = (0..2).map(|i| if y.molefracs[i] == 0.0 { 0.0 } else { y.molefracs[i] * (lnphi_y[i] + y.molefracs[i].ln() - d[i]) }).sum();
                            let dt = ((y.temperature - s.temperature) / s.temperature).into_value().abs();
                            let ps = s.pressure(Contributions::Total);
                            let dp = ((y.pressure(Contributions::Total) - ps) / ps).into_value().abs();
                            let sx = y.molefracs.sum();
                            if !(tpd < 0.0) || !(dt < 1e-12) || !(dp < 1e-6) || !((sx - 1.0).abs() < 1e-12) {
                                n_bad += 1;
                                if n_bad <= 6 {
                                    println!("WITNESS stability_analysis({a}/{b}, T={t}, p={p}, z={z}) returned a trial state y={} with recomputed tpd={tpd:e}, |dT/T|={dt:e}, |dp/p|={dp:e}, sum y={sx}", y.molefracs);
                                }
                            }
                        }
                    }
                }
            }
        }
    }
    println!("explored: {n_states} analysed states, {n_trials} returned trial states, {n_bad} off");
}

// C07.5 (every trial phase is tried): metastable pure fluids - a supersaturated vapor and a superheated liquid between
// binodal and spinodal - and the same for the first and the last component of a binary model with the other component
// absent: stability analysis must find a trial phase with negative tangent-plane distance (the only liquid-like /
// vapor-like trial there is), so `is_stable` must say no.
#[test]
fn vx_witness_stability_coverage() {
    use feos_core::cubic::{PengRobinson, PengRobinsonParameters};
    use feos_core::PhaseEquilibrium;
    let (mut n_ok, mut n_bad) = (0, 0);
    let fluids = [("propane", 369.8, 41.9e5, 0.15, 44.0962), ("methane", 190.56, 45.99e5, 0.011, 16.04)];
    for (name, tc, pc, omega, mw) in fluids {
        // the pure model, and binary models in which the fluid is the first / the second component (the other one absent)
        let other = (507.6, 30.25e5, 0.3013, 86.177);
        let models: Vec<(&str, Vec<(f64, f64, f64, f64)>, Vec<f64>)> = vec![
            ("pure model", vec![(tc, pc, omega, mw)], vec![1.0]),
            ("first of two components, the second absent", vec![(tc, pc, omega, mw), other], vec![1.0, 0.0]),
            ("second of two components, the first absent", vec![other, (tc, pc, omega, mw)], vec![0.0, 1.0]),
        ];
        let Ok(pp) = PengRobinsonParameters::new_simple(&[tc], &[pc], &[omega], &[mw]) else { continue };
        let pure = Arc::new(PengRobinson::new(Arc::new(pp)));
        for tr in [0.7, 0.8, 0.9] {
            let t = tr * tc * KELVIN;
            let Ok(vle) = PhaseEquilibrium::pure(&pure, t, None, SolverOptions::default()) else { continue };
            let p_sat = vle.vapor().pressure(Contributions::Total);
            for (what, recs, x) in &models {
                let (tcs, pcs, oms, mws): (Vec<f64>, Vec<f64>, Vec<f64>, Vec<f64>) = (recs.iter().map(|r| r.0).collect(), recs.iter().map(|r| r.1).collect(), recs.iter().map(|r| r.2).collect(), recs.iter().map(|r| r.3).collect());
                let Ok(params) = PengRobinsonParameters::new_simple(&tcs, &pcs, &oms, &mws) else { continue };
                let eos = Arc::new(PengRobinson::new(Arc::new(params)));
                let n = Array1::from_vec(x.clone()) * MOL;
                for (factor, phase, state_name) in [(1.08, DensityInitialization::Vapor, "supersaturated vapor"), (0.92, DensityInitialization::Liquid, "superheated liquid")] {
                    let Ok(s) = State::new_npt(&eos, t, factor * p_sat, &n, phase) else { continue };
                    let Ok(stable) = s.is_stable(SolverOptions::default()) else { continue };
                    n_ok += 1;
                    if stable {
                        n_bad += 1;
                        if n_bad <= 8 { println!("WITNESS is_stable = true for a metastable state: Peng-Robinson {name} ({what}), {state_name} at T = {t}, p = {} = {factor} p_sat (density {})", factor * p_sat, s.density); }
                    }
                }
            }
        }
    }
    println!("explored: {n_ok} metastable states, {n_bad} reported stable");
}
