// Witness search for C01.3/C01.4/C10 (run by ./check against a scratch copy of the working tree).
// A probe model differentiable by hand to third order is run on the real `State`; every method whose
// value differs from the hand derivative is printed as `WITNESS ...`.
use feos_core::{Components, Contributions, EquationOfState, IdealGas, ReferenceSystem, Residual, State, StateHD};
use ndarray::{arr1, Array1, ScalarOperand};
use num_dual::DualNum;
use quantity::*;
use std::sync::Arc;

// beta A = a V + b T^2 + c V N1 + d N0 N1 + e / V      =>  A = beta A * T
struct P { a: f64, b: f64, c: f64, d: f64, e: f64 }
impl Components for P { fn components(&self) -> usize { 2 } fn subset(&self, _: &[usize]) -> Self { unimplemented!() } }
impl Residual for P {
    fn compute_max_density(&self, _: &Array1<f64>) -> f64 { 1.0 }
    fn residual_helmholtz_energy_contributions<D: DualNum<f64> + Copy + ScalarOperand>(&self, s: &StateHD<D>) -> Vec<(String, D)> {
        let (t, v, n0, n1) = (s.temperature, s.volume, s.moles[0], s.moles[1]);
        vec![("p".into(), v * self.a + t * t * self.b + v * n1 * self.c + n0 * n1 * self.d + v.recip() * self.e)]
    }
}
struct Ig;
impl Components for Ig { fn components(&self) -> usize { 2 } fn subset(&self, _: &[usize]) -> Self { Ig } }
impl IdealGas for Ig {
    fn ln_lambda3<D: DualNum<f64> + Copy>(&self, temperature: D) -> Array1<D> { Array1::from_elem(2, temperature.ln() * 1.5) }
    fn ideal_gas_model(&self) -> String { "probe".into() }
}
fn close(name: &str, got: f64, exp: f64) -> bool {
    let ok = (got - exp).abs() <= 1e-10 * (1.0 + exp.abs());
    if !ok { println!("WITNESS property-method={name} state=\"T=310 V=55 N=[1.5,2.5] probe model bA=aV+bT^2+cVN1+dN0N1+e/V\" got={got:e} expected_from_hand_derivative={exp:e}"); }
    ok
}
#[test]
fn vx_witness_plumbing() {
    let p = P { a: 0.7, b: 1.3e-3, c: 0.011, d: 0.05, e: 40.0 };
    let (a, b, c, d, e) = (p.a, p.b, p.c, p.d, p.e);
    let eos = Arc::new(p);
    let (t, v, n0, n1) = (310.0, 55.0, 1.5, 2.5);
    let s = State::new_nvt(&eos, Temperature::from_reduced(t), Volume::from_reduced(v), &Moles::from_reduced(arr1(&[n0, n1]))).unwrap();
    let mut ok = true;
    // hand derivatives of A = (aV + bT^2 + cVN1 + dN0N1 + e/V) T
    let da_dv = (a + c * n1 - e / (v * v)) * t;
    let d2a_dv2 = (2.0 * e / v.powi(3)) * t;
    let d3a_dv3 = (-6.0 * e / v.powi(4)) * t;
    let da_dt = a * v + 3.0 * b * t * t + c * v * n1 + d * n0 * n1 + e / v;
    let d2a_dt2 = 6.0 * b * t;
    let d3a_dt3 = 6.0 * b;
    let d2a_dvdt = a + c * n1 - e / (v * v);
    let da_dn = [d * n1 * t, (c * v + d * n0) * t];
    let d2a_dvdn = [0.0, c * t];
    let d2a_dtdn = [d * n1, c * v + d * n0];
    let d2a_dndn = [[0.0, d * t], [d * t, 0.0]];
    ok &= close("pressure", s.pressure(Contributions::Residual).to_reduced(), -da_dv);
    ok &= close("residual_entropy", s.residual_entropy().to_reduced(), -da_dt);
    ok &= close("dp_dv", s.dp_dv(Contributions::Residual).to_reduced(), -d2a_dv2);
    ok &= close("dp_dt", s.dp_dt(Contributions::Residual).to_reduced(), -d2a_dvdt);
    ok &= close("d2p_dv2", s.d2p_dv2(Contributions::Residual).to_reduced(), -d3a_dv3);
    ok &= close("ds_res_dt", s.ds_res_dt().to_reduced(), -d2a_dt2);
    ok &= close("d2s_res_dt2", s.d2s_res_dt2().to_reduced(), -d3a_dt3);
    let mu = s.residual_chemical_potential().to_reduced();
    let dpdn = s.dp_dni(Contributions::Residual).to_reduced();
    let dmudt = s.dmu_res_dt().to_reduced();
    let dmudn = s.dmu_dni(Contributions::Residual).to_reduced();
    for i in 0..2 {
        ok &= close("mu_res", mu[i], da_dn[i]);
        ok &= close("dp_dni", dpdn[i], -d2a_dvdn[i]);
        ok &= close("dmu_res_dt", dmudt[i], d2a_dtdn[i]);
        for j in 0..2 { ok &= close("dmu_dni", dmudn[(i, j)], d2a_dndn[i][j]); }
    }
    // C10.3 ideal parts (reduced units: R = 1)
    let n = n0 + n1; let rho = n / v;
    ok &= close("p_id", s.pressure(Contributions::IdealGas).to_reduced(), rho * t);
    ok &= close("dp_dv_id", s.dp_dv(Contributions::IdealGas).to_reduced(), -n * t / (v * v));
    ok &= close("dp_dt_id", s.dp_dt(Contributions::IdealGas).to_reduced(), n / v);
    ok &= close("d2p_dv2_id", s.d2p_dv2(Contributions::IdealGas).to_reduced(), 2.0 * n * t / v.powi(3));
    let dpdn_id = s.dp_dni(Contributions::IdealGas).to_reduced();
    let dmudn_id = s.dmu_dni(Contributions::IdealGas).to_reduced();
    for i in 0..2 {
        ok &= close("dp_dni_id", dpdn_id[i], t / v);
        for j in 0..2 { ok &= close("dmu_dni_id", dmudn_id[(i, j)], if i == j { t / [n0, n1][i] } else { 0.0 }); }
    }
    // selector algebra
    ok &= close("p_total", s.pressure(Contributions::Total).to_reduced(), s.pressure(Contributions::IdealGas).to_reduced() + s.pressure(Contributions::Residual).to_reduced());
    // C10.2 twins through an ideal-gas + residual wrapper: Residual selector == residual_* method, Total == sum
    let ig = Arc::new(Ig);
    let both = Arc::new(EquationOfState::new(ig, eos.clone()));
    let s2 = State::new_nvt(&both, Temperature::from_reduced(t), Volume::from_reduced(v), &Moles::from_reduced(arr1(&[n0, n1]))).unwrap();
    // deliberately evaluate a third-order key first (history), then the rest
    let _ = s2.d2s_dt2(Contributions::Total);
    ok &= close("entropy(Residual)", s2.entropy(Contributions::Residual).to_reduced(), -da_dt);
    ok &= close("ds_dt(Residual)", s2.ds_dt(Contributions::Residual).to_reduced(), -d2a_dt2);
    ok &= close("d2s_dt2(Residual)", s2.d2s_dt2(Contributions::Residual).to_reduced(), -d3a_dt3);
    ok &= close("helmholtz_energy(Residual)", s2.helmholtz_energy(Contributions::Residual).to_reduced(), s.residual_helmholtz_energy().to_reduced());
    let muc = s2.chemical_potential(Contributions::Residual).to_reduced();
    let dmudtc = s2.dmu_dt(Contributions::Residual).to_reduced();
    for i in 0..2 {
        ok &= close("chemical_potential(Residual)", muc[i], da_dn[i]);
        ok &= close("dmu_dt(Residual)", dmudtc[i], d2a_dtdn[i]);
    }
    // ideal part of the probe ideal-gas model: A_ig*beta = sum_i N_i (ln_lambda3 + ln(N_i/V) - 1), ln_lambda3 = 1.5 ln T
    let aig = |t: f64, v: f64, n: [f64; 2]| -> f64 { n.iter().map(|&ni| ni * (1.5 * t.ln() + (ni / v).ln() - 1.0)).sum::<f64>() * t };
    let h = 1e-4;
    let ds = -(aig(t + h, v, [n0, n1]) - aig(t - h, v, [n0, n1])) / (2.0 * h);
    let got = s2.entropy(Contributions::IdealGas).to_reduced();
    if (got - ds).abs() > 1e-5 * ds.abs() { println!("WITNESS property-method=entropy(IdealGas) got={got:e} expected_from_central_difference={ds:e}"); ok = false; }
    for (name, tot, id, res) in [
        ("entropy", s2.entropy(Contributions::Total).to_reduced(), s2.entropy(Contributions::IdealGas).to_reduced(), s2.entropy(Contributions::Residual).to_reduced()),
        ("ds_dt", s2.ds_dt(Contributions::Total).to_reduced(), s2.ds_dt(Contributions::IdealGas).to_reduced(), s2.ds_dt(Contributions::Residual).to_reduced()),
        ("helmholtz_energy", s2.helmholtz_energy(Contributions::Total).to_reduced(), s2.helmholtz_energy(Contributions::IdealGas).to_reduced(), s2.helmholtz_energy(Contributions::Residual).to_reduced()),
        ("pressure", s2.pressure(Contributions::Total).to_reduced(), s2.pressure(Contributions::IdealGas).to_reduced(), s2.pressure(Contributions::Residual).to_reduced()),
    ] {
        ok &= close(&format!("{name}(Total) vs IdealGas+Residual"), tot, id + res);
    }
    println!("key-and-sign table consistent: {ok}");
}
