// Witness search for C08.3 (run by ./check against a scratch copy; integration test of `feos`, features pcsaft + dft).
// PC-SAFT as equation of state and as Helmholtz energy functional on the same hand-made parameter sets whose association
// takes the closed-form (analytic) route - one A and one B site, or one C site - with the associating component first or
// second, with different segment diameters, and with the A and B site on different components (induced association):
// and on sets that take the iterative route (several A/B pairs, several C sites, both):
// the residual Helmholtz energy of the same bulk state must be the same number.  Anything else is printed as `WITNESS ...`.
#![cfg(all(feature = "pcsaft", feature = "dft"))]
use feos::pcsaft::{PcSaft, PcSaftFunctional, PcSaftParameters, PcSaftRecord};
use feos_core::parameter::{Identifier, Parameter, PureRecord};
use feos_core::State;
use ndarray::arr1;
use quantity::*;
use std::sync::Arc;
use typenum::P3;

fn record(name: &str, m: f64, sigma: f64, epsilon_k: f64, assoc: Option<(f64, f64, f64)>) -> PureRecord<PcSaftRecord> {
    let (na, nb, nc) = match assoc { Some((a, b, c)) => (Some(a), Some(b), Some(c)), None => (None, None, None) };
    PureRecord::new(
        Identifier::new(None, Some(name), None, None, None, None),
        50.0,
        PcSaftRecord::new(m, sigma, epsilon_k, None, None, assoc.map(|_| 0.03), assoc.map(|_| 2500.0), na, nb, nc, None, None, None),
    )
}

#[test]
fn vx_witness_assoc_bulk() {
    let inert = || record("inert", 2.0, 3.2, 220.0, None);
    let cases: Vec<(&str, Vec<PureRecord<PcSaftRecord>>, [f64; 2])> = vec![
        ("2B component first", vec![record("alcohol", 2.5, 3.9, 250.0, Some((1.0, 1.0, 0.0))), inert()], [0.9, 0.3]),
        ("2B component second", vec![inert(), record("alcohol", 2.5, 3.9, 250.0, Some((1.0, 1.0, 0.0)))], [0.3, 0.9]),
        ("C-site component first", vec![record("acid", 2.5, 3.9, 250.0, Some((0.0, 0.0, 1.0))), inert()], [0.9, 0.3]),
        ("C-site component second", vec![inert(), record("acid", 2.5, 3.9, 250.0, Some((0.0, 0.0, 1.0)))], [0.3, 0.9]),
        ("A site on the first, B site on the second component", vec![record("donor", 2.0, 3.2, 220.0, Some((1.0, 0.0, 0.0))), record("acceptor", 2.5, 3.5, 250.0, Some((0.0, 1.0, 0.0)))], [0.3, 0.9]),
        ("B site on the first, A site on the second component", vec![record("acceptor", 2.5, 3.5, 250.0, Some((0.0, 1.0, 0.0))), record("donor", 2.0, 3.2, 220.0, Some((1.0, 0.0, 0.0)))], [0.9, 0.3]),
        // the iterative (cross-association) route of both implementations
        ("two 2B components", vec![record("alcohol", 2.5, 3.9, 250.0, Some((1.0, 1.0, 0.0))), record("alcohol2", 2.0, 3.5, 230.0, Some((1.0, 1.0, 0.0)))], [0.9, 0.3]),
        ("two C-site components", vec![record("acid1", 2.5, 3.9, 250.0, Some((0.0, 0.0, 1.0))), record("acid2", 2.0, 3.5, 230.0, Some((0.0, 0.0, 1.0)))], [0.9, 0.3]),
        ("2B component + component with A, B and C site", vec![record("alcohol", 2.5, 3.9, 250.0, Some((1.0, 1.0, 0.0))), record("mixed", 2.0, 3.5, 230.0, Some((1.0, 1.0, 1.0)))], [0.9, 0.3]),
        ("2B component + C-site component", vec![record("alcohol", 2.5, 3.9, 250.0, Some((1.0, 1.0, 0.0))), record("acid", 2.0, 3.5, 230.0, Some((0.0, 0.0, 1.0)))], [0.9, 0.3]),
    ];
    let (mut n_ok, mut n_bad) = (0, 0);
    for (what, records, n) in cases {
        let Ok(params) = PcSaftParameters::from_records(records, None) else { continue };
        let params = Arc::new(params);
        let eos = Arc::new(PcSaft::new(params.clone()));
        let func = Arc::new(PcSaftFunctional::new(params));
        for (t, v) in [(300.0, 1.0e-4), (400.0, 3.0e-4), (250.0, 1.0e-2)] {
            let (t, v) = (t * KELVIN, v * METER.powi::<P3>());
            let (Ok(s1), Ok(s2)) = (State::new_nvt(&eos, t, v, &(arr1(&n) * MOL)), State::new_nvt(&func, t, v, &(arr1(&n) * MOL))) else { continue };
            let a1 = (s1.residual_helmholtz_energy() / (RGAS * t * MOL)).into_value();
            let a2 = (s2.residual_helmholtz_energy() / (RGAS * t * MOL)).into_value();
            n_ok += 1;
            if !((a1 - a2).abs() <= 1e-10 * a1.abs()) {
                n_bad += 1;
                if n_bad <= 8 { println!("WITNESS PC-SAFT, {what}, T={t}, V={v}, n={n:?} mol: A_res/RT = {a1} mol from the equation of state, {a2} mol from the functional at the same bulk state"); }
            }
        }
    }
    println!("explored: {n_ok} bulk states, {n_bad} off");
}
