// Witness search for C14.4 (run by ./check against a scratch copy; integration test of `feos-core`).
// Chemical records - linear, branched (bonds listed in the usual order and in an unusual order), star-shaped, rings,
// a single segment - are written with serde_json and read back; the record read must have the segments and exactly the
// bonds of the record written.  Anything else is printed as `WITNESS ...`.
use feos_core::parameter::{ChemicalRecord, Identifier};

#[test]
fn vx_witness_chemical_record_json() {
    let (mut n_ok, mut n_bad) = (0, 0);
    let s = |v: &[&str]| v.iter().map(|x| x.to_string()).collect::<Vec<_>>();
    let cases: Vec<(&str, Vec<String>, Option<Vec<[usize; 2]>>)> = vec![
        ("butane, no bonds given", s(&["CH3", "CH2", "CH2", "CH3"]), None),
        ("butane, linear bonds given", s(&["CH3", "CH2", "CH2", "CH3"]), Some(vec![[0, 1], [1, 2], [2, 3]])),
        ("isobutane", s(&["CH3", ">CH", "CH3", "CH3"]), Some(vec![[0, 1], [1, 2], [1, 3]])),
        ("isobutane, centre first", s(&[">CH", "CH3", "CH3", "CH3"]), Some(vec![[0, 1], [0, 2], [0, 3]])),
        ("neopentane, centre first", s(&[">C<", "CH3", "CH3", "CH3", "CH3"]), Some(vec![[0, 1], [0, 2], [0, 3], [0, 4]])),
        ("2-propanol", s(&["CH3", ">CH", "CH3", "OH"]), Some(vec![[0, 1], [1, 2], [1, 3]])),
        ("2-methylbutane", s(&["CH3", ">CH", "CH2", "CH3", "CH3"]), Some(vec![[0, 1], [1, 2], [2, 3], [1, 4]])),
        ("2-methylbutane, branch listed early", s(&["CH3", "CH3", ">CH", "CH2", "CH3"]), Some(vec![[0, 2], [1, 2], [2, 3], [3, 4]])),
        ("cyclopentane", s(&["CH2_pent"; 5]), Some(vec![[0, 1], [1, 2], [2, 3], [3, 4], [4, 0]])),
        ("benzene", s(&["CH_arom"; 6]), Some(vec![[0, 1], [1, 2], [2, 3], [3, 4], [4, 5], [5, 0]])),
        ("chain with bonds in reverse order", s(&["CH3", "CH2", "CH3"]), Some(vec![[1, 2], [0, 1]])),
        ("chain with reversed pairs", s(&["CH3", "CH2", "CH3"]), Some(vec![[1, 0], [2, 1]])),
        ("methane", s(&["CH4"]), Some(vec![])),
        ("two segments without a bond", s(&["A", "B"]), Some(vec![])),
    ];
    for (what, segments, bonds) in cases {
        // the bonds the record must have: the given ones, or those of a linear chain
        let expected: Vec<[usize; 2]> = bonds.clone().unwrap_or_else(|| (1..segments.len()).map(|i| [i - 1, i]).collect());
        let record = ChemicalRecord::new(Identifier::new(None, Some(what), None, None, None, None), segments.clone(), bonds);
        n_ok += 1;
        if record.bonds != expected || record.segments != segments {
            n_bad += 1;
            println!("WITNESS chemical record `{what}` built with bonds {expected:?} holds bonds {:?} (segments {:?})", record.bonds, record.segments);
            continue;
        }
        let Ok(json) = serde_json::to_string(&record) else { continue };
        match serde_json::from_str::<ChemicalRecord>(&json) {
            Ok(read) if read.segments == segments && read.bonds == expected => {}
            Ok(read) => {
                n_bad += 1;
                println!("WITNESS chemical record `{what}` with bonds {expected:?} is written as {json} and read back with bonds {:?} (segments {:?})", read.bonds, read.segments);
            }
            Err(e) => {
                n_bad += 1;
                println!("WITNESS chemical record `{what}` with bonds {expected:?} is written as {json}, which cannot be read back: {e}");
            }
        }
    }
    println!("explored: {n_ok} chemical records, {n_bad} off");
}
