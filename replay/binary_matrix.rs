// Witness search for C14.1 (run by ./check against a scratch copy; integration test of `feos-core`).
// `Parameter::binary_matrix_from_records` for 2-4 substances, identifier kinds name and CAS (and identifiers that carry a name
// only, looked up by name), every subset of the pairs
// present, each stored in either orientation and in every list position: the entry (i, j) and the entry (j, i) must be
// the stored record when exactly one record exists for the pair, and the default record when none exists; anything
// else is printed as `WITNESS ...`.
use feos_core::parameter::*;
use ndarray::Array2;
use serde::{Deserialize, Serialize};

#[derive(Debug, Clone, Serialize, Deserialize, Default)]
struct P { a: f64 }
#[derive(Debug, Clone, Serialize, Deserialize, Default, PartialEq)]
struct B { b: f64 }
struct My { pure_records: Vec<PureRecord<P>>, binary_records: Option<Array2<B>> }
impl Parameter for My {
    type Pure = P;
    type Binary = B;
    fn from_records(pure_records: Vec<PureRecord<P>>, binary_records: Option<Array2<B>>) -> Result<Self, ParameterError> { Ok(Self { pure_records, binary_records }) }
    fn records(&self) -> (&[PureRecord<P>], Option<&Array2<B>>) { (&self.pure_records, self.binary_records.as_ref()) }
}
/// with_cas = false: an identifier that carries a name only (no CAS number) - `Identifier`'s own `==` compares CAS numbers
/// only, so such identifiers all compare equal although they name different substances
fn ident(k: usize, with_cas: bool) -> Identifier { Identifier::new(if with_cas { Some(format!("{k}00-0-{k}")) } else { None }.as_deref(), Some(&format!("substance{k}")), None, None, None, None) }

#[test]
fn vx_witness_binary_matrix() {
    let (mut n_cases, mut n_bad) = (0, 0);
    for n in 2..=4usize {
      for with_cas in [true, false] {
        let pure: Vec<PureRecord<P>> = (0..n).map(|k| PureRecord::new(ident(k, with_cas), 1.0, P { a: k as f64 })).collect();
        let pairs: Vec<(usize, usize)> = (0..n).flat_map(|i| (i + 1..n).map(move |j| (i, j))).collect();
        for opt in [IdentifierOption::Name, IdentifierOption::Cas] {
            if !with_cas && matches!(opt, IdentifierOption::Cas) { continue; }
            // mask: which pairs are present; flip: which of them are stored the other way round; rot: list rotation
            for mask in 1u32..(1 << pairs.len()) {
                for flip in 0u32..(1 << pairs.len()) {
                    if flip & !mask != 0 { continue; }
                    for rot in 0..pairs.len() {
                        let mut recs: Vec<BinaryRecord<Identifier, B>> = Vec::new();
                        for (q, &(i, j)) in pairs.iter().enumerate() {
                            if mask & (1 << q) == 0 { continue; }
                            let (a, b) = if flip & (1 << q) != 0 { (j, i) } else { (i, j) };
                            recs.push(BinaryRecord::new(ident(a, with_cas), ident(b, with_cas), B { b: 10.0 * (i + 1) as f64 + j as f64 }));
                        }
                        let r = rot % recs.len();
                        recs.rotate_left(r);
                        let m = My::binary_matrix_from_records(&pure, &recs, opt);
                        n_cases += 1;
                        let Some(m) = m else { n_bad += 1; if n_bad <= 6 { println!("WITNESS binary_matrix_from_records(n={n}, {} records) returned None", recs.len()); } continue };
                        for (q, &(i, j)) in pairs.iter().enumerate() {
                            let want = if mask & (1 << q) != 0 { B { b: 10.0 * (i + 1) as f64 + j as f64 } } else { B::default() };
                            if m[[i, j]] != want || m[[j, i]] != want {
                                n_bad += 1;
                                if n_bad <= 6 {
                                    println!("WITNESS binary_matrix_from_records(n={n}, identifier {:?}, pairs present mask={mask:b}, stored reversed mask={flip:b}, rotation {r}): entry ({i},{j})={:?}, entry ({j},{i})={:?}, expected {:?}", opt, m[[i, j]], m[[j, i]], want);
                                }
                            }
                        }
                    }
                }
            }
        }
    }
      }
    println!("explored: {n_cases} record lists, {n_bad} entries off");
}
