// Witness search for C09.6 (run by ./check against a scratch copy; integration test of `feos`, feature pcsaft).
// Associating PC-SAFT components (hand-made 2B records) alone, and padded with OTHER associating components that are
// present with zero moles (in front, behind, two of them): the padded models take the iterative cross-association solver,
// the pure model the closed form; residual Helmholtz energy, pressure and the residual chemical potential of the
// component that is present must be the same numbers.  Anything else is printed as `WITNESS ...`.
#![cfg(feature = "pcsaft")]
use feos::pcsaft::{PcSaft, PcSaftParameters, PcSaftRecord};
use feos_core::parameter::{Identifier, Parameter, PureRecord};
use feos_core::{Contributions, State};
use ndarray::Array1;
use quantity::*;
use std::sync::Arc;
use typenum::P3;

fn rec(name: &str, m: f64, sigma: f64, eps: f64, kappa: f64, eps_ab: f64) -> PureRecord<PcSaftRecord> {
    PureRecord::new(
        Identifier::new(None, Some(name), None, None, None, None),
        40.0,
        PcSaftRecord::new(m, sigma, eps, None, None, Some(kappa), Some(eps_ab), Some(1.0), Some(1.0), None, None, None, None),
    )
}

#[test]
fn vx_witness_zero_mole_association() {
    let (mut n_ok, mut n_bad) = (0, 0);
    let a = || rec("a", 1.5, 3.2, 190.0, 0.035, 2900.0);
    let b = || rec("b", 2.4, 3.2, 200.0, 0.03, 2650.0);
    let c = || rec("c", 3.0, 3.3, 230.0, 0.015, 2300.0);
    // (description, records, index of the component that is present)
    let paddings: Vec<(&str, Vec<PureRecord<PcSaftRecord>>, usize)> = vec![
        ("[a, b] with n_b = 0", vec![a(), b()], 0),
        ("[b, a] with n_b = 0", vec![b(), a()], 1),
        ("[a, b, c] with n_b = n_c = 0", vec![a(), b(), c()], 0),
        ("[c, a, b] with n_b = n_c = 0", vec![c(), a(), b()], 1),
    ];
    let Ok(pure) = PcSaftParameters::from_records(vec![a()], None) else { return };
    let pure = Arc::new(PcSaft::new(Arc::new(pure)));
    for (what, records, k) in paddings {
        let nc = records.len();
        let Ok(params) = PcSaftParameters::from_records(records, None) else { continue };
        let padded = Arc::new(PcSaft::new(Arc::new(params)));
        for (t, v) in [(300.0, 8.0e-5), (350.0, 2.0e-4), (450.0, 2.0e-3)] {
            let (t, v) = (t * KELVIN, v * METER.powi::<P3>());
            let mut n = Array1::zeros(nc);
            n[k] = 2.0;
            let (Ok(s1), Ok(s2)) = (State::new_nvt(&pure, t, v, &(Array1::from_elem(1, 2.0) * MOL)), State::new_nvt(&padded, t, v, &(n * MOL))) else { continue };
            n_ok += 1;
            let a1 = (s1.residual_helmholtz_energy() / (RGAS * t * MOL)).into_value();
            let a2 = (s2.residual_helmholtz_energy() / (RGAS * t * MOL)).into_value();
            let p1 = s1.pressure(Contributions::Total).convert_to(PASCAL);
            let p2 = s2.pressure(Contributions::Total).convert_to(PASCAL);
            let mu1 = (s1.residual_chemical_potential().get(0) / (RGAS * t)).into_value();
            let mu2 = (s2.residual_chemical_potential().get(k) / (RGAS * t)).into_value();
            let close = |x: f64, y: f64| (x - y).abs() <= 1e-7 * x.abs().max(1e-12);
            if !(close(a1, a2) && close(p1, p2) && close(mu1, mu2)) {
                n_bad += 1;
                if n_bad <= 8 { println!("WITNESS PC-SAFT, associating component alone versus padded as {what}, T={t}, V={v}, 2 mol: A_res/RT = {a1:.8} / {a2:.8} mol, p = {p1:.6e} / {p2:.6e} Pa, mu_res/RT = {mu1:.8} / {mu2:.8}"); }
            }
        }
    }
    println!("explored: {n_ok} padded states, {n_bad} off");
}
