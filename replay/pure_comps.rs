// Witness search for C04.4 (run by ./check against a scratch copy; integration test of `feos-core`).
// `PhaseEquilibrium::vle_pure_comps` of Peng-Robinson propane / n-butane / n-pentane mixtures (2 and 3 components) at
// given temperature and at given pressure: the entry of component i must contain component i only, with exactly the
// temperature, volume and amount of the phases of `PhaseEquilibrium::pure` for the sub-model of component i; anything
// else is printed as `WITNESS ...`.
use feos_core::cubic::{PengRobinson, PengRobinsonParameters};
use feos_core::{Components, PhaseEquilibrium, TemperatureOrPressure};
use quantity::*;
use std::sync::Arc;

const TC: [f64; 3] = [369.96, 425.2, 469.7];
const PC: [f64; 3] = [4250000.0, 3800000.0, 3370000.0];
const OMEGA: [f64; 3] = [0.153, 0.199, 0.251];
const MW: [f64; 3] = [44.0962, 58.123, 72.15];

fn explore<TP: TemperatureOrPressure + std::fmt::Display>(n: usize, tp: TP, n_bad: &mut usize, n_ok: &mut usize) {
    let mix = Arc::new(PengRobinson::new(Arc::new(PengRobinsonParameters::new_simple(&TC[..n], &PC[..n], &OMEGA[..n], &MW[..n]).unwrap())));
    let vles = PhaseEquilibrium::vle_pure_comps(&mix, tp);
    for (i, vle) in vles.iter().enumerate() {
        let Some(vle) = vle.as_ref() else { continue };
        let pure = Arc::new(mix.subset(&[i]));
        let Ok(reference) = PhaseEquilibrium::pure(&pure, tp, None, Default::default()) else { continue };
        *n_ok += 1;
        for (s, r, name) in [(vle.vapor(), reference.vapor(), "vapor"), (vle.liquid(), reference.liquid(), "liquid")] {
            let mut off = s.temperature != r.temperature || s.volume != r.volume;
            for j in 0..n {
                let want = if i == j { r.total_moles } else { 0.0 * MOL };
                off = off || s.moles.get(j) != want;
            }
            if off {
                *n_bad += 1;
                if *n_bad <= 6 {
                    println!("WITNESS vle_pure_comps({n} components, {tp}) entry {i}, {name}: moles={} T={} V={} but pure sub-model phase has N={} T={} V={}",
                        s.moles, s.temperature, s.volume, r.total_moles, r.temperature, r.volume);
                }
            }
        }
    }
}

#[test]
fn vx_witness_pure_comps() {
    let (mut n_bad, mut n_ok) = (0, 0);
    for n in [1, 2, 3] {
        for t in [250.0, 300.0, 340.0] { explore(n, t * KELVIN, &mut n_bad, &mut n_ok); }
        for p in [1.0, 5.0, 15.0] { explore(n, p * BAR, &mut n_bad, &mut n_ok); }
    }
    println!("explored: {n_ok} embedded pure-component equilibria, {n_bad} phases off");
}
