// Witness search for C09.2 (run by ./check against a scratch copy; integration test of `feos`, --features pcsaft).
// PC-SAFT propane/butane/hexane with three distinct k_ij: for every list of distinct indices of length 1..3 (any order) the record tables of `subset(list)` are compared with pure[list[i]] and k_ij[list[i], list[j]];
// a difference is printed as `WITNESS ...`.
use feos::pcsaft::{PcSaftBinaryRecord, PcSaftParameters};
use feos_core::parameter::{IdentifierOption, Parameter};
use ndarray::Array2;

#[test]
fn vx_witness_param_subset() {
    let full = PcSaftParameters::from_json(vec!["propane", "butane", "hexane"], "tests/pcsaft/test_parameters.json", None, IdentifierOption::Name).unwrap();
    let (pure, _) = full.records();
    let kij = [[0.0, 0.011, 0.023], [0.011, 0.0, 0.037], [0.023, 0.037, 0.0]];
    let binary = Array2::from_shape_fn([3, 3], |(i, j)| PcSaftBinaryRecord::from(kij[i][j]));
    let full = PcSaftParameters::from_records(pure.to_vec(), Some(binary)).unwrap();
    let (pure, _) = full.records();
    let names: Vec<String> = pure.iter().map(|r| r.identifier.name.clone().unwrap()).collect();
    let mut lists: Vec<Vec<usize>> = Vec::new();
    for a in 0..3 { lists.push(vec![a]); for b in 0..3 { if b == a { continue; } lists.push(vec![a, b]); for c in 0..3 { if c == a || c == b { continue; } lists.push(vec![a, b, c]); } } }
    let mut n_bad = 0;
    for list in lists {
        let sub = match std::panic::catch_unwind(std::panic::AssertUnwindSafe(|| full.subset(&list))) {
            Ok(s) => s,
            Err(_) => {
                n_bad += 1;
                if n_bad <= 4 { println!("WITNESS subset({list:?}) of [propane, butane, hexane] panicked"); }
                continue;
            }
        };
        let (p2, b2) = sub.records();
        let mut bad = p2.len() != list.len();
        let got_names: Vec<String> = p2.iter().map(|r| r.identifier.name.clone().unwrap()).collect();
        for (k, &i) in list.iter().enumerate() {
            if got_names.get(k) != Some(&names[i]) || p2.get(k).map(|r| r.molarweight) != Some(pure[i].molarweight) { bad = true; }
        }
        let mut got_k = vec![];
        match b2 {
            None => bad = true,
            Some(b2) => {
                if b2.dim() != (list.len(), list.len()) { bad = true; } else {
                    for (a, &i) in list.iter().enumerate() { for (b, &j) in list.iter().enumerate() {
                        let exp: f64 = kij[i][j];
                        got_k.push(b2[(a, b)].k_ij);
                        if b2[(a, b)].k_ij != exp { bad = true; }
                    } }
                }
            }
        }
        if bad {
            n_bad += 1;
            if n_bad <= 4 { println!("WITNESS subset({list:?}) of [propane, butane, hexane] has pure records {got_names:?} (expected {:?}) and k_ij {got_k:?}", list.iter().map(|&i| names[i].clone()).collect::<Vec<_>>()); }
        }
    }
    println!("explored: 15 index lists, {n_bad} wrong");
}
