// Witness search for C09.7 (run by ./check against a scratch copy; integration test of `feos`, feature gc_pcsaft).
// Heterosegmented gc-PC-SAFT mixtures with two and three dipolar components (acetone, diethyl ether, ethyl ethanoate from the
// shipped group-contribution files) at non-equimolar compositions, in every order of the components: the residual Helmholtz
// energy and the pressure must not depend on the order, the residual chemical potentials must be permuted with it.
// Anything else is printed as `WITNESS ...`.
#![cfg(feature = "gc_pcsaft")]
use feos::gc_pcsaft::{GcPcSaft, GcPcSaftEosParameters};
use feos_core::parameter::{IdentifierOption, ParameterHetero};
use feos_core::{Contributions, State};
use ndarray::Array1;
use quantity::*;
use std::sync::Arc;
use typenum::P3;

fn eos(names: &[&str]) -> Option<Arc<GcPcSaft>> {
    GcPcSaftEosParameters::from_json_segments(names, "parameters/pcsaft/gc_substances.json", "parameters/pcsaft/sauer2014_hetero.json", None, IdentifierOption::Name)
        .ok().map(|p| Arc::new(GcPcSaft::new(Arc::new(p))))
}

#[test]
fn vx_witness_gc_polar_terms() {
    let (mut n_ok, mut n_bad) = (0, 0);
    let sets: Vec<(Vec<&str>, Vec<f64>)> = vec![
        (vec!["acetone", "diethyl ether"], vec![0.2, 0.8]),
        (vec!["acetone", "ethyl ethanoate"], vec![0.7, 0.3]),
        (vec!["acetone", "diethyl ether", "ethyl ethanoate"], vec![0.2, 0.5, 0.3]),
    ];
    for (names, x) in sets {
        let n = names.len();
        let Some(reference) = eos(&names) else { continue };
        // all rotations and one transposition of the component list
        let mut orders: Vec<Vec<usize>> = (1..n).map(|r| (0..n).map(|i| (i + r) % n).collect()).collect();
        let mut sw: Vec<usize> = (0..n).collect(); sw.swap(0, n - 1); if !orders.contains(&sw) { orders.push(sw); }
        for (t, v) in [(300.0, 1.1e-4), (400.0, 5.0e-4)] {
            let (t, v) = (t * KELVIN, v * METER.powi::<P3>());
            let Ok(s0) = State::new_nvt(&reference, t, v, &(Array1::from_vec(x.clone()) * MOL)) else { continue };
            let a0 = s0.residual_helmholtz_energy().convert_to(JOULE);
            let p0 = s0.pressure(Contributions::Total).convert_to(PASCAL);
            let mu0 = s0.residual_chemical_potential().convert_to(JOULE / MOL);
            for order in &orders {
                let pn: Vec<&str> = order.iter().map(|&i| names[i]).collect();
                let px: Vec<f64> = order.iter().map(|&i| x[i]).collect();
                let Some(e) = eos(&pn) else { continue };
                let Ok(s) = State::new_nvt(&e, t, v, &(Array1::from_vec(px.clone()) * MOL)) else { continue };
                let a = s.residual_helmholtz_energy().convert_to(JOULE);
                let p = s.pressure(Contributions::Total).convert_to(PASCAL);
                let mu = s.residual_chemical_potential().convert_to(JOULE / MOL);
                let rel = |a: f64, b: f64| (a - b).abs() / a.abs().max(b.abs()).max(1e-300);
                let dmu = order.iter().enumerate().map(|(k, &i)| rel(mu[k], mu0[i])).fold(0.0, f64::max);
                n_ok += 1;
                if !(rel(a, a0) < 1e-10 && rel(p, p0) < 1e-9 && dmu < 1e-9) {
                    n_bad += 1;
                    if n_bad <= 8 { println!("WITNESS gc-PC-SAFT {names:?} with x = {x:?} at T = {t}, V = {v}, versus the same mixture listed as {pn:?}: A_res = {a0:.6} / {a:.6} J, p = {p0:.6e} / {p:.6e} Pa, largest relative difference of the permuted mu_res {dmu:.3e}"); }
                }
            }
        }
    }
    println!("explored: {n_ok} relabelled states, {n_bad} off");
}
