// Witness search for C08.7 (run by ./check against a scratch copy; integration test of `feos`, features dft + gc_pcsaft).
// gc-PC-SAFT as equation of state and as Helmholtz energy functional built from IDENTICAL input including binary segment
// records (segment-segment k_ij), with the record written in either orientation and the components listed in either order:
// the residual Helmholtz energy and the pressure of the same bulk state must agree.  Anything else is printed as `WITNESS ...`.
#![cfg(all(feature = "dft", feature = "gc_pcsaft"))]
use feos::gc_pcsaft::{GcPcSaft, GcPcSaftEosParameters, GcPcSaftFunctional, GcPcSaftFunctionalParameters, GcPcSaftRecord};
use feos_core::parameter::{BinaryRecord, ChemicalRecord, Identifier, ParameterHetero, SegmentRecord};
use feos_core::{Contributions, State};
use ndarray::arr1;
use quantity::*;
use std::sync::Arc;
use typenum::P3;

fn chem(list: &[&str]) -> ChemicalRecord { ChemicalRecord::new(Identifier::default(), list.iter().map(|s| s.to_string()).collect(), None) }

#[test]
fn vx_witness_gc_kij_twins() {
    let (mut n_ok, mut n_bad) = (0, 0);
    let Ok(segment_records): Result<Vec<SegmentRecord<GcPcSaftRecord>>, _> = SegmentRecord::from_json("parameters/pcsaft/sauer2014_hetero.json") else { return };
    let propane = ["CH3", "CH2", "CH3"];
    let ethanol = ["CH3", "CH2", "OH"];
    for (order, moles) in [(vec![&propane[..], &ethanol[..]], [0.7, 0.3]), (vec![&ethanol[..], &propane[..]], [0.3, 0.7])] {
        for (a, b, k) in [("CH3", "OH", 0.06), ("OH", "CH3", 0.06), ("CH2", "OH", -0.04), ("OH", "CH2", -0.04)] {
            let records: Vec<ChemicalRecord> = order.iter().map(|l| chem(l)).collect();
            let bsr = Some(vec![BinaryRecord::new(a.to_string(), b.to_string(), k)]);
            let (Ok(pe), Ok(pf)) = (GcPcSaftEosParameters::from_segments(records.clone(), segment_records.clone(), bsr.clone()), GcPcSaftFunctionalParameters::from_segments(records, segment_records.clone(), bsr)) else { continue };
            let eos = Arc::new(GcPcSaft::new(Arc::new(pe)));
            let func = Arc::new(GcPcSaftFunctional::new(Arc::new(pf)));
            let (t, v) = (300.0 * KELVIN, 2.0e-4 * METER.powi::<P3>());
            let n = arr1(&moles) * MOL;
            let (Ok(s1), Ok(s2)) = (State::new_nvt(&eos, t, v, &n), State::new_nvt(&func, t, v, &n)) else { continue };
            let (a1, a2) = (s1.residual_helmholtz_energy().convert_to(JOULE), s2.residual_helmholtz_energy().convert_to(JOULE));
            let (p1, p2) = (s1.pressure(Contributions::Total).convert_to(PASCAL), s2.pressure(Contributions::Total).convert_to(PASCAL));
            n_ok += 1;
            if !(((a1 - a2) / a1).abs() < 1e-10 && ((p1 - p2) / p1).abs() < 1e-9) {
                n_bad += 1;
                if n_bad <= 8 { println!("WITNESS gc-PC-SAFT, components {order:?} with the binary segment record ({a}, {b}, k_ij = {k}): A_res = {a1:.4} J from the equation of state, {a2:.4} J from the functional; p = {p1:.6e} / {p2:.6e} Pa"); }
            }
        }
    }
    println!("explored: {n_ok} bulk states, {n_bad} off");
}
