// Witness search for C18.1 (run by ./check against a scratch copy; integration test of `feos`, --features "dft pcsaft").
// Planar propane interfaces (PC-SAFT functional, 200 K) solved with chains of solver stages - converging chains, chains
// whose first stage converges loosely and whose last stage is cut off, a Picard stage last, a Newton stage last.  When
// `solve` reports success the residual of the STORED profile, re-evaluated through the public API, must be below the
// tolerance of the last stage (with a slack of 10 for the round trip through SI units); anything else: `WITNESS ...`.
// The same for PoreProfile::solve (hard-sphere fluid in a hard-wall slit pore).
#![cfg(all(feature = "dft", feature = "pcsaft"))]
use feos::pcsaft::{PcSaftFunctional, PcSaftParameters};
use feos_core::parameter::{IdentifierOption, Parameter};
use feos_core::{PhaseEquilibrium, State, Verbosity};
use feos_dft::interface::PlanarInterface;
use feos_dft::DFTSolver;
use quantity::*;
use std::sync::Arc;

#[test]
fn vx_witness_dft_solver() {
    let params = Arc::new(PcSaftParameters::from_json(vec!["propane"], "tests/pcsaft/test_parameters.json", None, IdentifierOption::Name).unwrap());
    let func = Arc::new(PcSaftFunctional::new(params));
    let tc = State::critical_point(&func, None, None, Default::default()).unwrap().temperature;
    let vle = PhaseEquilibrium::pure(&func, 200.0 * KELVIN, None, Default::default()).unwrap();
    let tol = 1e-10;
    let v = Some(Verbosity::None);
    let chains: Vec<(&str, DFTSolver)> = vec![
        ("anderson(1e-3) + anderson(tol)", DFTSolver::new(v).anderson_mixing(Some(true), Some(200), Some(1e-3), None, None).anderson_mixing(None, Some(300), Some(tol), None, None)),
        ("picard(1e-3) + newton(tol)", DFTSolver::new(v).picard_iteration(None, Some(200), Some(1e-3), None).newton(None, Some(50), None, Some(tol))),
        ("anderson(1e-3) + anderson(tol, 2 iterations)", DFTSolver::new(v).anderson_mixing(Some(true), Some(200), Some(1e-3), None, None).anderson_mixing(None, Some(2), Some(tol), None, None)),
        ("picard(1e-3) + newton(tol, 1 iteration)", DFTSolver::new(v).picard_iteration(None, Some(200), Some(1e-3), None).newton(None, Some(1), None, Some(tol))),
        ("anderson(1e-2) + picard(tol, 3 iterations)", DFTSolver::new(v).anderson_mixing(Some(true), Some(200), Some(1e-2), None, None).picard_iteration(None, Some(3), Some(tol), None)),
        ("picard(tol)", DFTSolver::new(v).picard_iteration(None, Some(500), Some(tol), None)),
    ];
    let (mut n_ok, mut n_success, mut n_bad) = (0, 0, 0);
    for (name, solver) in &chains {
        let init = PlanarInterface::from_tanh(&vle, 256, 120.0 * ANGSTROM, tc, false);
        n_ok += 1;
        if let Ok(solved) = init.solve(Some(solver)) {
            n_success += 1;
            if let Ok((_, _, res)) = solved.profile.residual(false) {
                if !(res < 10.0 * tol) {
                    n_bad += 1;
                    if n_bad <= 6 { println!("WITNESS solve({name}) reported success, the stored profile has Euler-Lagrange residual {res:e} (tolerance of the last stage {tol:e})"); }
                }
            }
        }
    }
    // C18.1c: the same for PoreProfile::solve - a hard-sphere fluid in a hard-wall slit pore (no parameter files), with the
    // default solver and with chains that are cut off after a handful of iterations
    {
        use feos::hard_sphere::{FMTFunctional, FMTVersion};
        use feos_dft::adsorption::{ExternalPotential, Pore1D, PoreSpecification};
        use feos_dft::Geometry;
        use typenum::P3;
        let func = Arc::new(FMTFunctional::new(&ndarray::arr1(&[1.0]), FMTVersion::WhiteBear));
        let pore = Pore1D::new(Geometry::Cartesian, 10.0 * ANGSTROM, ExternalPotential::HardWall { sigma_ss: 1.0 }, Some(256), None);
        if let Ok(bulk) = State::new_pure(&func, KELVIN, 0.75 / NAV / ANGSTROM.powi::<P3>()) {
            let ptol = 1e-11;
            let pchains: Vec<(&str, Option<DFTSolver>)> = vec![
                ("default", None),
                ("picard(5) + anderson(5)", Some(DFTSolver::new(v).picard_iteration(Some(true), Some(5), Some(ptol), Some(0.05)).anderson_mixing(Some(true), Some(5), Some(ptol), None, None))),
                ("anderson(3)", Some(DFTSolver::new(v).anderson_mixing(Some(true), Some(3), Some(ptol), None, None))),
            ];
            for (name, solver) in &pchains {
                let Ok(init) = pore.initialize(&bulk, None, None) else { continue };
                n_ok += 1;
                if let Ok(solved) = init.solve(solver.as_ref()) {
                    n_success += 1;
                    if let Ok((_, _, res)) = solved.profile.residual(false) {
                        if !(res < 10.0 * ptol) {
                            n_bad += 1;
                            if n_bad <= 6 { println!("WITNESS PoreProfile::solve({name}) reported success, the stored profile has Euler-Lagrange residual {res:e} (tolerance {ptol:e})"); }
                        }
                    }
                }
            }
        }
    }
    println!("explored: {n_ok} solver chains, {n_success} reported success, {n_bad} off");
}
