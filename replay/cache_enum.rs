
// ---- appended by /verif (witness search for C11.1-5) to feos-core/src/state/cache.rs of a scratch copy:
// drives the REAL `Cache` with closures returning distinct tagged numbers and enumerates all request histories of
// length <= 3 over the 33 keys of a binary system; every answer must be the number that denotes the requested key.
#[cfg(test)]
mod vx_witness_cache_enum {
    use super::*;

    fn dirs() -> Vec<Derivative> {
        vec![Derivative::DV, Derivative::DT, Derivative::DN(0), Derivative::DN(1)]
    }
    fn idx(d: Derivative) -> usize {
        match d { Derivative::DV => 0, Derivative::DT => 1, Derivative::DN(i) => 2 + i }
    }
    // the value a key denotes: one distinct number per *mathematical* derivative (mixed keys symmetric, Second(v) = SecondMixed(v,v))
    fn truth(k: PartialDerivative) -> f64 {
        match k {
            PartialDerivative::Zeroth => 1.0,
            PartialDerivative::First(v) => 10.0 + idx(v) as f64,
            PartialDerivative::Second(v) => 100.0 + (idx(v) * 4 + idx(v)) as f64,
            PartialDerivative::SecondMixed(a, b) => { let (i, j) = (idx(a).min(idx(b)), idx(a).max(idx(b))); 100.0 + (i * 4 + j) as f64 }
            PartialDerivative::Third(v) => 1000.0 + idx(v) as f64,
        }
    }
    fn request(c: &mut Cache, k: PartialDerivative) -> f64 {
        use PartialDerivative::*;
        match k {
            Zeroth => c.get_or_insert_with_f64(|| truth(Zeroth)),
            First(v) => c.get_or_insert_with_d64(v, || Dual64::new(truth(Zeroth), truth(First(v)))),
            Second(v) => c.get_or_insert_with_d2_64(v, || Dual2_64::new(truth(Zeroth), truth(First(v)), truth(Second(v)))),
            SecondMixed(a, b) => c.get_or_insert_with_hd64(a, b, || HyperDual64::new(truth(Zeroth), truth(First(a)), truth(First(b)), truth(SecondMixed(a, b)))),
            Third(v) => c.get_or_insert_with_hd364(v, || Dual3_64::new(truth(Zeroth), truth(First(v)), truth(Second(v)), truth(Third(v)))),
        }
    }
    #[test]
    fn vx_witness_cache_enum() {
        let mut keys = vec![PartialDerivative::Zeroth];
        for a in dirs() {
            keys.push(PartialDerivative::First(a));
            keys.push(PartialDerivative::Second(a));
            keys.push(PartialDerivative::Third(a));
            for b in dirs() { keys.push(PartialDerivative::SecondMixed(a, b)); }
        }
        let n = keys.len();
        let mut bad = 0;
        let mut histories = 0u64;
        let mut run = |h: &[usize]| {
            let mut c = Cache::with_capacity(2);
            for (pos, &ki) in h.iter().enumerate() {
                let got = request(&mut c, keys[ki]);
                if got != truth(keys[ki]) && bad < 5 {
                    bad += 1;
                    println!("WITNESS history={:?} position={} key={:?} answer={} expected={}", h.iter().map(|&i| keys[i]).collect::<Vec<_>>(), pos, keys[ki], got, truth(keys[ki]));
                }
            }
        };
        for a in 0..n { run(&[a]); histories += 1; for b in 0..n { run(&[a, b]); histories += 1; for c in 0..n { run(&[a, b, c]); histories += 1; } } }
        println!("cache_enum: {} keys, {} histories", n, histories);
    }
}
