// Witness search for C10.4b (run by ./check against a scratch copy; integration test of `feos`).
// Joback::ln_lambda3 on hand-made records against the textbook expression written out independently:
// ((H(T) - H(T0)) - T (a ln(T/T0) + P(T) - P(T0))) / (T R) + ln(T kB / (p0 A^3)) with the antiderivatives
// H = aT + bT^2/2 + cT^3/3 + dT^4/4 + eT^5/5 and P = bT + cT^2/2 + dT^3/3 + eT^4/4; anything else is printed as `WITNESS ...`.
use feos::ideal_gas::{Joback, JobackRecord};
use feos_core::parameter::{Identifier, Parameter, PureRecord};
use feos_core::IdealGas;

#[test]
fn vx_witness_joback_form() {
    let recs = [
        JobackRecord::new(-5.1, 0.30, -1.2e-4, 8.0e-9, 0.0),
        JobackRecord::new(12.0, 0.21, -3.9e-5, -2.0e-8, 1.5e-12),
        JobackRecord::new(30.4, -0.05, 2.2e-4, -1.1e-7, 2.0e-11),
        JobackRecord::new(1.0, 0.0, 0.0, 0.0, 0.0),
        JobackRecord::new(0.0, 0.0, 0.0, 0.0, 1.0e-10),
    ];
    let (t0, rgas, kb, p0, a3) = (298.15f64, 6.022140857 * 1.38064852, 1.38064852e-23f64, 1.0e5f64, 1e-30f64);
    let hh = |r: &JobackRecord, t: f64| r.a * t + r.b * t.powi(2) / 2.0 + r.c * t.powi(3) / 3.0 + r.d * t.powi(4) / 4.0 + r.e * t.powi(5) / 5.0;
    let pp = |r: &JobackRecord, t: f64| r.b * t + r.c * t.powi(2) / 2.0 + r.d * t.powi(3) / 3.0 + r.e * t.powi(4) / 4.0;
    let (mut n_ok, mut n_bad) = (0, 0);
    let pure: Vec<PureRecord<JobackRecord>> = recs.iter().map(|r| PureRecord::new(Identifier::default(), 1.0, r.clone())).collect();
    let Ok(model) = Joback::from_records(pure, None) else { println!("explored: 0"); return };
    for t in [150.0, 250.0, 298.15, 300.0, 450.0, 800.0, 1500.0] {
        let got = model.ln_lambda3(t);
        if got.len() != recs.len() {
            n_bad += 1;
            println!("WITNESS Joback::ln_lambda3(T={t} K) has {} entries for {} component records", got.len(), recs.len());
            continue;
        }
        for (i, r) in recs.iter().enumerate() {
            let h = hh(r, t) - hh(r, t0);
            let s = r.a * (t / t0).ln() + pp(r, t) - pp(r, t0);
            let f = (t * kb / (p0 * a3)).ln();
            let want = (h - t * s) / (t * rgas) + f;
            let scale = (h.abs() + (t * s).abs()) / (t * rgas) + f.abs();
            n_ok += 1;
            if !((got[i] - want).abs() <= 1e-9 * scale) {
                n_bad += 1;
                if n_bad <= 6 { println!("WITNESS Joback::ln_lambda3(T={t} K)[{i}] = {}, (H - T S)/(T R) + ln(T kB/(p0 A^3)) from the antiderivatives of c_p and c_p/T = {want}", got[i]); }
            }
        }
    }
    println!("explored: {n_ok} entries, {n_bad} off");
}
