// Witness search for C04.1 / C04.2 (run by ./check against a scratch copy; integration test of `feos`, --features pcsaft).
// Pure-component VLE of PC-SAFT propane, butane, hexane: at given temperature (with and without a previous equilibrium
// as initial state) and at given pressure.  An Ok result whose phases are not both at the specified temperature
// (T-specified), not at one common temperature (p-specified), whose pressures differ by more than 1e-6 relative or whose
// chemical potentials mu_res + RT ln(rho) differ by more than 1e-6 RT is printed as `WITNESS ...`.
use feos::pcsaft::{PcSaft, PcSaftParameters};
use feos_core::parameter::{IdentifierOption, Parameter};
use feos_core::{Contributions, PhaseEquilibrium, ReferenceSystem, SolverOptions, State};
use quantity::*;
use std::sync::Arc;

fn mu(s: &State<PcSaft>) -> f64 {
    let t = s.temperature.to_reduced();
    s.residual_chemical_potential().to_reduced()[0] / t + s.density.to_reduced().ln()
}

#[test]
fn vx_witness_pure_vle() {
    let (mut n_ok, mut n_bad) = (0, 0);
    for name in ["propane", "butane", "hexane"] {
        let eos = Arc::new(PcSaft::new(Arc::new(PcSaftParameters::from_json(vec![name], "tests/pcsaft/test_parameters.json", None, IdentifierOption::Name).unwrap())));
        let mut previous: Option<PhaseEquilibrium<PcSaft, 2>> = None;
        for it in 0..12 {
            let t = (200.0 + 12.5 * it as f64) * KELVIN;
            for use_prev in [false, true] {
                let init = if use_prev { previous.as_ref() } else { None };
                if let Ok(vle) = PhaseEquilibrium::pure(&eos, t, init, SolverOptions::default()) {
                    n_ok += 1;
                    let (v, l) = (vle.vapor(), vle.liquid());
                    let dp = ((v.pressure(Contributions::Total) - l.pressure(Contributions::Total)) / l.pressure(Contributions::Total)).into_value().abs();
                    let dmu = (mu(v) - mu(l)).abs();
                    if v.temperature != t || l.temperature != t || dp > 1e-6 || dmu > 1e-6 {
                        n_bad += 1;
                        if n_bad <= 5 { println!("WITNESS pure({name}, T={t}, initial_state={}) returned Ok: T_v={} T_l={} |dp|/p={dp:e} |dmu|/RT={dmu:e}", use_prev, v.temperature, l.temperature); }
                    }
                    // the same equilibrium from the pressure side
                    let p = v.pressure(Contributions::Total);
                    if let Ok(vle_p) = PhaseEquilibrium::pure(&eos, p, Some(&vle), SolverOptions::default()) {
                        n_ok += 1;
                        let (v2, l2) = (vle_p.vapor(), vle_p.liquid());
                        let dmu2 = (mu(v2) - mu(l2)).abs();
                        if v2.temperature != l2.temperature || dmu2 > 1e-6 {
                            n_bad += 1;
                            if n_bad <= 5 { println!("WITNESS pure({name}, p={p}) returned Ok: T_v={} T_l={} |dmu|/RT={dmu2:e}", v2.temperature, l2.temperature); }
                        }
                    }
                    if !use_prev { previous = Some(vle); }
                }
            }
        }
    }
    println!("explored: {n_ok} converged pure equilibria, {n_bad} off");
}
