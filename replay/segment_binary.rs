// Witness search for C14.2 (run by ./check against a scratch copy; integration test of `feos`, --features pcsaft).
// Homosegmented group-contribution construction (PcSaftParameters::from_segments, propane + ethanol) with the binary
// segment records (CH3,OH), (CH2,OH) stored in every combination of orientations and list orders, for both component
// orders: k_ij must be the documented count-weighted average  sum(k_ab n_a n_b) / sum(n_a n_b)  every time, and 0 when no
// record is given; anything else is printed as `WITNESS ...`.
#![cfg(feature = "pcsaft")]
use feos::pcsaft::PcSaftParameters;
use feos_core::parameter::{BinaryRecord, ChemicalRecord, Parameter, SegmentRecord};

#[test]
fn vx_witness_segment_binary() {
    let (mut n_ok, mut n_bad) = (0, 0);
    let Ok(segment_records) = SegmentRecord::from_json("parameters/pcsaft/sauer2014_homo.json") else { return };
    let expected = (-0.2 * 2.0 - 0.1 * 1.0) / 9.0;
    for flip in 0..4u32 {
        for swap_list in [false, true] {
            for propane_first in [true, false] {
                let (ch3, ch2, oh): (String, String, String) = ("CH3".into(), "CH2".into(), "OH".into());
                let propane = ChemicalRecord::new(Default::default(), vec![ch3.clone(), ch2.clone(), ch3.clone()], None);
                let ethanol = ChemicalRecord::new(Default::default(), vec![ch3.clone(), ch2.clone(), oh.clone()], None);
                let mut recs: Vec<BinaryRecord<String, f64>> = vec![
                    if flip & 1 == 0 { BinaryRecord::new(ch3.clone(), oh.clone(), -0.2) } else { BinaryRecord::new(oh.clone(), ch3.clone(), -0.2) },
                    if flip & 2 == 0 { BinaryRecord::new(ch2.clone(), oh.clone(), -0.1) } else { BinaryRecord::new(oh.clone(), ch2.clone(), -0.1) },
                ];
                if swap_list { recs.reverse(); }
                let chem = if propane_first { vec![propane, ethanol] } else { vec![ethanol, propane] };
                let Ok(p) = PcSaftParameters::from_segments(chem, segment_records.clone(), Some(recs)) else { continue };
                n_ok += 1;
                let k = p.binary_records.as_ref().unwrap();
                if !((k[[0, 1]].k_ij - expected).abs() < 1e-14) || !((k[[1, 0]].k_ij - expected).abs() < 1e-14) {
                    n_bad += 1;
                    if n_bad <= 6 { println!("WITNESS from_segments(propane/ethanol, records reversed mask={flip:b}, list swapped={swap_list}, propane first={propane_first}): k_ij = {} / {}, documented average {expected}", k[[0, 1]].k_ij, k[[1, 0]].k_ij); }
                }
            }
        }
    }
    println!("explored: {n_ok} constructions, {n_bad} off");
}
