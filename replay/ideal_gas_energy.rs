// Witness search for C10.5 (run by ./check against a scratch copy; integration test of `feos`).
// Joback ideal-gas models of three hand-made components wrapped as ideal-gas-only equations of state: the ideal-gas
// Helmholtz energy of states with every pattern of present / absent components ([1,0.5,2], [1,0,2], [0,1,2], [1,2,0],
// [0,0,3] ...) must be the textbook sum  R T sum_i N_i (ln Lambda_i^3(T) + ln rho_i - 1)  over the PRESENT components,
// each with its own ln Lambda^3 (rho_i in 1/A^3), and must equal the energy of the sub-model without the absent
// components; anything else is printed as `WITNESS ...`.
use feos::ideal_gas::{Joback, JobackRecord};
use feos_core::parameter::{Identifier, Parameter, PureRecord};
use feos_core::{Components, Contributions, EquationOfState, IdealGas, ReferenceSystem, State};
use ndarray::arr1;
use quantity::*;
use std::sync::Arc;
use typenum::P3;

#[test]
fn vx_witness_ideal_gas_energy() {
    let recs = vec![
        PureRecord::new(Identifier::default(), 1.0, JobackRecord::new(-5.0, 0.4, -2.0e-4, 4.0e-8, 0.0)),
        PureRecord::new(Identifier::default(), 1.0, JobackRecord::new(30.0, -0.01, 3.0e-5, -1.0e-8, 0.0)),
        PureRecord::new(Identifier::default(), 1.0, JobackRecord::new(12.0, 0.15, -6.0e-5, 9.0e-9, 1.0e-13)),
    ];
    let Ok(joback) = Joback::from_records(recs, None) else { println!("explored: 0"); return };
    let joback = Arc::new(joback);
    let eos = Arc::new(EquationOfState::ideal_gas(joback.clone()));
    let (mut n_ok, mut n_bad) = (0, 0);
    for t in [300.0, 350.0, 600.0] {
        let lam = joback.ln_lambda3(t);
        // (amounts, volume in m3); the last three: components PRESENT in a very dilute state - partial densities far below
        // 1e-16 / A^3 (a trace component, a near-vacuum): they are present, so their N (ln Lambda^3 + ln rho - 1) counts
        for (n, vol) in [([1.0, 0.5, 2.0], 1.0), ([1.0, 0.0, 2.0], 1.0), ([0.0, 1.0, 2.0], 1.0), ([1.0, 2.0, 0.0], 1.0), ([0.0, 0.0, 3.0], 1.0), ([0.0, 3.0, 0.0], 1.0), ([2.0, 0.0, 0.0], 1.0),
            ([1.0e-5, 1.0, 2.0], 1.0e6), ([0.0, 0.0, 1.0e-5], 1.0e6), ([2.0e-6, 0.0, 3.0e-6], 1.0e7)] {
            let v = vol * METER.powi::<P3>();
            let Ok(s) = State::new_nvt(&eos, t * KELVIN, v, &(arr1(&n) * MOL)) else { continue };
            let got = (s.helmholtz_energy(Contributions::IdealGas) / (RGAS * t * KELVIN * MOL)).into_value();
            let rho = s.partial_density.to_reduced();
            let want: f64 = (0..3).filter(|&i| n[i] > 0.0).map(|i| n[i] * (lam[i] + rho[i].ln() - 1.0)).sum();
            n_ok += 1;
            if !((got - want).abs() <= 1e-10 * want.abs().max(1.0)) {
                n_bad += 1;
                if n_bad <= 6 { println!("WITNESS ideal-gas Helmholtz energy (Joback, T={t} K, n={n:?} mol in {vol} m3): A_ig/RT = {got} mol, sum_i N_i (ln Lambda_i^3 + ln rho_i - 1) over the present components = {want} mol"); }
            }
            // the first derivatives of that sum, through the state's own dispatcher: mu_i^ig / RT = ln Lambda_i^3 + ln rho_i for
            // every PRESENT component (its OWN partial density: the ideal-mixing term), p^ig V / RT = N
            let mu = s.chemical_potential(Contributions::IdealGas);
            for i in (0..3).filter(|&i| n[i] > 0.0) {
                let got_mu = (mu.get(i) / (RGAS * t * KELVIN)).into_value();
                let want_mu = lam[i] + rho[i].ln();
                n_ok += 1;
                if !((got_mu - want_mu).abs() <= 1e-9 * want_mu.abs().max(1.0)) {
                    n_bad += 1;
                    if n_bad <= 6 { println!("WITNESS ideal-gas chemical potential of component {i} (Joback, T={t} K, n={n:?} mol in {vol} m3): mu_ig/RT = {got_mu}, ln Lambda^3 + ln rho_i = {want_mu} (x_i = {})", n[i] / (n[0] + n[1] + n[2])); }
                }
            }
            let pv = (s.pressure(Contributions::IdealGas) * v / (RGAS * t * KELVIN * MOL)).into_value();
            n_ok += 1;
            if !((pv - (n[0] + n[1] + n[2])).abs() <= 1e-10 * (n[0] + n[1] + n[2])) {
                n_bad += 1;
                if n_bad <= 6 { println!("WITNESS ideal-gas pressure (Joback, T={t} K, n={n:?} mol in {vol} m3): p V / RT = {pv} mol"); }
            }
            // the sub-model of the present components at the same partial densities
            let present: Vec<usize> = (0..3).filter(|&i| n[i] > 0.0).collect();
            if present.len() < 3 {
                let sub = Arc::new(EquationOfState::ideal_gas(Arc::new(Components::subset(&*joback, &present))));
                let nsub: Vec<f64> = present.iter().map(|&i| n[i]).collect();
                if let Ok(s2) = State::new_nvt(&sub, t * KELVIN, v, &(arr1(&nsub) * MOL)) {
                    let got2 = (s2.helmholtz_energy(Contributions::IdealGas) / (RGAS * t * KELVIN * MOL)).into_value();
                    n_ok += 1;
                    if !((got - got2).abs() <= 1e-10 * got2.abs().max(1.0)) {
                        n_bad += 1;
                        if n_bad <= 6 { println!("WITNESS ideal-gas Helmholtz energy (Joback, T={t} K, n={n:?} mol): {got} mol with the absent components listed, {got2} mol for the sub-model without them"); }
                    }
                }
            }
        }
    }
    println!("explored: {n_ok} states, {n_bad} off");
}
