// Witness search for C20.7 (run by ./check against a scratch copy; integration test of `feos`, feature pcsaft).
// PC-SAFT records with hand-made entropy-scaling coefficients - all of A..E non-zero, which no shipped record has - for one
// component and (viscosity) for a binary mixture, at vapor and dense liquid states: `ln_viscosity_reduced`,
// `ln_diffusion_reduced`, `ln_thermal_conductivity_reduced` must equal the published closed forms of s = s_res / (R m_bar).
// Anything else is printed as `WITNESS ...`.
#![cfg(feature = "pcsaft")]
use feos::pcsaft::{PcSaft, PcSaftParameters, PcSaftRecord};
use feos_core::parameter::{Identifier, Parameter, PureRecord};
use feos_core::{ReferenceSystem, State};
use ndarray::arr1;
use quantity::*;
use std::sync::Arc;
use typenum::P3;

const VISC: [[f64; 4]; 2] = [[-0.8, -1.2, -0.25, -0.04], [-1.1, -1.6, -0.31, -0.07]];
const DIFF: [f64; 5] = [0.02, -0.5, 0.3, 1.2e-3, 2.0e-5];
const COND: [f64; 4] = [0.1, -0.9, 0.6, -0.05];

fn rec(name: &str, m: f64, sigma: f64, eps: f64, k: usize) -> PureRecord<PcSaftRecord> {
    PureRecord::new(Identifier::new(None, Some(name), None, None, None, None), 44.0 + 14.0 * k as f64,
        PcSaftRecord::new(m, sigma, eps, None, None, None, None, None, None, None, Some(VISC[k]), Some(DIFF), Some(COND)))
}

#[test]
fn vx_witness_pcsaft_correlations() {
    let (mut n_ok, mut n_bad) = (0, 0);
    let mut judge = |what: String, got: Result<f64, feos_core::EosError>, exp: f64| {
        let Ok(got) = got else { return };
        n_ok += 1;
        if !((got - exp).abs() <= 1e-10 * (1.0 + exp.abs())) {
            n_bad += 1;
            if n_bad <= 8 { println!("WITNESS {what}: the library gives {got:.10}, the published correlation {exp:.10}"); }
        }
    };
    let ms = [2.0, 2.6];
    // one component
    if let Ok(params) = PcSaftParameters::from_records(vec![rec("a", ms[0], 3.6, 208.0, 0)], None) {
        let eos = Arc::new(PcSaft::new(Arc::new(params)));
        for (t, v) in [(150.0, 7.0e-5), (200.0, 8.0e-5), (300.0, 1.0e-4), (300.0, 1.0e-2)] {
            let Ok(st) = State::new_nvt(&eos, t * KELVIN, v * METER.powi::<P3>(), &(arr1(&[1.0]) * MOL)) else { continue };
            let s = st.residual_molar_entropy().to_reduced() / ms[0];
            let tag = format!("one component, T = {t} K, v = {v} m3/mol (s_res/(R m) = {s:.4})");
            judge(format!("ln_viscosity_reduced, {tag}"), st.ln_viscosity_reduced(), VISC[0][0] + VISC[0][1] * s + VISC[0][2] * s.powi(2) + VISC[0][3] * s.powi(3));
            judge(format!("ln_diffusion_reduced, {tag}"), st.ln_diffusion_reduced(), DIFF[0] + DIFF[1] * s - DIFF[2] * (1.0 - s.exp()) * s.powi(2) - DIFF[3] * s.powi(4) - DIFF[4] * s.powi(8));
            judge(format!("ln_thermal_conductivity_reduced, {tag}"), st.ln_thermal_conductivity_reduced(), COND[0] + COND[1] * s + COND[2] * (1.0 - s.exp()) + COND[3] * s.powi(2));
        }
    }
    // binary mixture: viscosity (A with mole fractions, B..D with segment fractions)
    if let Ok(params) = PcSaftParameters::from_records(vec![rec("a", ms[0], 3.6, 208.0, 0), rec("b", ms[1], 3.7, 222.0, 1)], None) {
        let eos = Arc::new(PcSaft::new(Arc::new(params)));
        for (t, v, x0) in [(200.0, 9.0e-5, 0.3), (300.0, 1.1e-4, 0.7), (300.0, 1.0e-2, 0.5)] {
            let Ok(st) = State::new_nvt(&eos, t * KELVIN, v * METER.powi::<P3>(), &(arr1(&[x0, 1.0 - x0]) * MOL)) else { continue };
            let x = [x0, 1.0 - x0];
            let mb = x[0] * ms[0] + x[1] * ms[1];
            let s = st.residual_molar_entropy().to_reduced() / mb;
            let w = [x[0] * ms[0] / mb, x[1] * ms[1] / mb];
            let a = x[0] * VISC[0][0] + x[1] * VISC[1][0];
            let bcd: Vec<f64> = (1..4).map(|k| w[0] * VISC[0][k] + w[1] * VISC[1][k]).collect();
            judge(format!("ln_viscosity_reduced, binary x = {x:?}, T = {t} K, v = {v} m3/mol"), st.ln_viscosity_reduced(), a + bcd[0] * s + bcd[1] * s.powi(2) + bcd[2] * s.powi(3));
        }
    }
    println!("explored: {n_ok} reduced transport properties, {n_bad} off");
}
