// Witness search for C20.2 / C20.4 (integration test of `feos`, --features estimator): Loss::apply on a grid of
// residuals and scaling factors against the documented closed form sqrt(f^2 rho(r^2/f^2)) (compared in the square),
// and zero residual => zero cost.  Prints `WITNESS ...` for every deviation.
use feos::estimator::Loss;
use ndarray::arr1;

fn rho(loss: &Loss, z: f64) -> f64 {
    match loss {
        Loss::Linear => z,
        Loss::SoftL1(_) => 2.0 * ((1.0 + z).sqrt() - 1.0),
        Loss::Huber(_) => if z <= 1.0 { z } else { 2.0 * z.sqrt() - 1.0 },
        Loss::Cauchy(_) => (1.0 + z).ln(),
        Loss::Arctan(_) => z.atan(),
    }
}

#[test]
fn vx_witness_loss_closed_form() {
    let mut n = 0;
    for f in [0.01, 0.05, 0.3, 1.0, 7.5] {
        for (name, loss) in [("Linear", Loss::Linear), ("SoftL1", Loss::softl1(f)), ("Huber", Loss::huber(f)), ("Cauchy", Loss::cauchy(f)), ("Arctan", Loss::arctan(f))] {
            let scale = if name == "Linear" { 1.0 } else { f };
            for r in [-20.0, -1.5, -0.3, -0.049, 0.0, 0.011, 0.05, 0.075, 0.9, 1.0, 1.0001, 3.0, 40.0] {
                let mut res = arr1(&[r]);
                loss.apply(&mut res);
                let c = res[0];
                let expect_sq = scale * scale * rho(&loss, r * r / (scale * scale));
                if (c * c - expect_sq).abs() > 1e-10 * (1.0 + expect_sq.abs()) && n < 8 {
                    n += 1;
                    println!("WITNESS loss={name}({f}) residual={r} cost={c} cost^2={} closed_form f^2*rho(r^2/f^2)={expect_sq}", c * c);
                }
            }
        }
    }
}
