// Witness search for C09.3 (run by ./check against a scratch copy; integration test of `feos`, --features "pcsaft saftvrmie").
// A component that needs a contribution (chain: butane; quadrupole: carbon dioxide; association: water) is padded with
// zero moles of a component that does not (methane: spherical, non-polar, non-associating) - in both component orders -
// and the residual Helmholtz energy, the residual pressure and the list of contributions the model reports are compared
// with the pure model; SAFT-VR Mie likewise (lafitte2013: a chain molecule + methane).  Anything else: `WITNESS ...`.
#![cfg(all(feature = "pcsaft", feature = "saftvrmie"))]
use feos::pcsaft::{PcSaft, PcSaftParameters};
use feos::saftvrmie::{SaftVRMie, SaftVRMieParameters};
use feos_core::parameter::{IdentifierOption, Parameter};
use feos_core::{Contributions, ReferenceSystem, Residual, State, StateHD};
use ndarray::arr1;
use quantity::*;
use std::sync::Arc;

fn compare<E: Residual>(tag: &str, pure: &Arc<E>, mix: &Arc<E>, first: bool, n_ok: &mut usize, n_bad: &mut usize) {
    let (t, v) = (350.0 * KELVIN, 2.0e-4 * METER * METER * METER);
    let n_mix = if first { arr1(&[1.5, 0.0]) } else { arr1(&[0.0, 1.5]) };
    let (Ok(sp), Ok(sm)) = (State::new_nvt(pure, t, v, &(arr1(&[1.5]) * MOL)), State::new_nvt(mix, t, v, &(n_mix.clone() * MOL))) else { return };
    *n_ok += 1;
    let (ap, am) = (sp.residual_helmholtz_energy().to_reduced(), sm.residual_helmholtz_energy().to_reduced());
    let (pp, pm) = (sp.pressure(Contributions::Residual).to_reduced(), sm.pressure(Contributions::Residual).to_reduced());
    let names = |e: &Arc<E>, n: ndarray::Array1<f64>| -> Vec<String> { e.residual_helmholtz_energy_contributions(&StateHD::new(350.0, 3.0e5, n)).into_iter().map(|(s, _)| s).collect() };
    let (cp, cm) = (names(pure, arr1(&[1.5])), names(mix, n_mix));
    let missing: Vec<&String> = cp.iter().filter(|c| !cm.contains(c)).collect();
    if !((ap - am).abs() <= 1e-10 * ap.abs()) || !((pp - pm).abs() <= 1e-10 * pp.abs()) || !missing.is_empty() {
        *n_bad += 1;
        if *n_bad <= 6 { println!("WITNESS {tag} padded with zero moles of methane ({} component first): A_res {ap:e} vs {am:e}, p_res {pp:e} vs {pm:e}, contributions of the pure model missing in the mixture model: {missing:?}", if first { "needy" } else { "methane" }); }
    }
}

#[test]
fn vx_witness_assembly() {
    let (mut n_ok, mut n_bad) = (0, 0);
    let pc = |names: Vec<&str>| PcSaftParameters::from_json(names, "tests/pcsaft/test_parameters.json", None, IdentifierOption::Name).ok().map(|p| Arc::new(PcSaft::new(Arc::new(p))));
    for needy in ["butane", "carbon-dioxide", "water_np", "hexane"] {
        let Some(pure) = pc(vec![needy]) else { continue };
        if let Some(mix) = pc(vec![needy, "methane"]) { compare(&format!("PC-SAFT {needy}"), &pure, &mix, true, &mut n_ok, &mut n_bad); }
        if let Some(mix) = pc(vec!["methane", needy]) { compare(&format!("PC-SAFT {needy}"), &pure, &mix, false, &mut n_ok, &mut n_bad); }
    }
    let vr = |names: Vec<&str>| SaftVRMieParameters::from_json(names, "parameters/saftvrmie/lafitte2013.json", None, IdentifierOption::Name).ok().map(|p| Arc::new(SaftVRMie::new(Arc::new(p))));
    for needy in ["ethane", "propane", "n-decane", "methanol"] {
        let Some(pure) = vr(vec![needy]) else { continue };
        if let Some(mix) = vr(vec![needy, "methane"]) { compare(&format!("SAFT-VR Mie {needy}"), &pure, &mix, true, &mut n_ok, &mut n_bad); }
        if let Some(mix) = vr(vec!["methane", needy]) { compare(&format!("SAFT-VR Mie {needy}"), &pure, &mix, false, &mut n_ok, &mut n_bad); }
    }
    println!("explored: {n_ok} padded models, {n_bad} off");
}
