// Witness search for C08.5 (run by ./check against a scratch copy; integration test of `feos`, features pcsaft + dft).
// PC-SAFT as equation of state and as Helmholtz energy functional (KierlikRosinberg FMT version, so that the general
// mixture contributions are used also for one component) on hand-made NON-polar, NON-associating records with a binary
// interaction parameter: the residual Helmholtz energy of the same bulk state must be the same number for both;
// anything else is printed as `WITNESS ...`.
#![cfg(all(feature = "pcsaft", feature = "dft"))]
use feos::hard_sphere::FMTVersion;
use feos::pcsaft::{PcSaft, PcSaftBinaryRecord, PcSaftFunctional, PcSaftParameters, PcSaftRecord};
use feos_core::parameter::{Identifier, Parameter, PureRecord};
use feos_core::State;
use ndarray::{arr1, Array2};
use quantity::*;
use std::sync::Arc;
use typenum::P3;

fn rec(name: &str, m: f64, sigma: f64, eps: f64) -> PureRecord<PcSaftRecord> {
    PureRecord::new(Identifier::new(None, Some(name), None, None, None, None), 40.0, PcSaftRecord::new(m, sigma, eps, None, None, None, None, None, None, None, None, None, None))
}

#[test]
fn vx_witness_pcsaft_disp_bulk() {
    let (mut n_ok, mut n_bad) = (0, 0);
    let sets: Vec<(&str, Vec<PureRecord<PcSaftRecord>>, Option<f64>, Vec<f64>)> = vec![
        ("pure", vec![rec("a", 2.0, 3.6, 210.0)], None, vec![1.0]),
        ("binary", vec![rec("a", 2.0, 3.6, 210.0), rec("b", 3.1, 3.9, 250.0)], None, vec![0.3, 0.9]),
        ("binary with k_ij", vec![rec("a", 2.0, 3.6, 210.0), rec("b", 3.1, 3.9, 250.0)], Some(0.08), vec![0.8, 0.4]),
        ("ternary with k_ij", vec![rec("a", 2.0, 3.6, 210.0), rec("b", 3.1, 3.9, 250.0), rec("c", 1.0, 3.7, 150.0)], Some(-0.05), vec![0.3, 0.5, 0.4]),
    ];
    for (what, records, kij, n) in sets {
        let nc = records.len();
        let binary = kij.map(|k| Array2::from_shape_fn((nc, nc), |(i, j)| PcSaftBinaryRecord::new(Some(if i == j { 0.0 } else { k }), None, None)));
        let Ok(params) = PcSaftParameters::from_records(records, binary) else { continue };
        let params = Arc::new(params);
        let eos = Arc::new(PcSaft::new(params.clone()));
        let func = Arc::new(PcSaftFunctional::new_full(params, FMTVersion::KierlikRosinberg));
        for (t, v) in [(300.0, 2.0e-4), (300.0, 5.0e-4), (450.0, 1.0e-3), (250.0, 2.0e-2)] {
            let (t, v) = (t * KELVIN, v * METER.powi::<P3>());
            let (Ok(s1), Ok(s2)) = (State::new_nvt(&eos, t, v, &(arr1(&n) * MOL)), State::new_nvt(&func, t, v, &(arr1(&n) * MOL))) else { continue };
            let a1 = (s1.residual_helmholtz_energy() / (RGAS * t * MOL)).into_value();
            let a2 = (s2.residual_helmholtz_energy() / (RGAS * t * MOL)).into_value();
            n_ok += 1;
            if !((a1 - a2).abs() <= 1e-10 * a1.abs()) {
                n_bad += 1;
                if n_bad <= 8 { println!("WITNESS PC-SAFT, {what}, T={t}, V={v}, n={n:?} mol: A_res/RT = {a1} mol from the equation of state, {a2} mol from the functional at the same bulk state"); }
            }
        }
    }
    println!("explored: {n_ok} bulk states, {n_bad} off");
}
