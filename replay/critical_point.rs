// Witness search for C06 (run by ./check against a scratch copy; integration test of `feos-core`).
// Peng-Robinson propane / butane (and pure propane): critical points for several compositions, binary critical points at
// given temperature and at given pressure, spinodals at given temperature.  A returned critical point must have positive
// pressure and a vanishing smallest eigenvalue of the scaled composition Hessian recomputed from dmu_dni; a binary
// critical point at given T (p) must reproduce that T (p); spinodal states must be at the given temperature, have the
// given amounts, a vanishing smallest eigenvalue and bracket the critical density.  Anything else: `WITNESS ...`.
use feos_core::cubic::{PengRobinson, PengRobinsonParameters};
use feos_core::{Contributions, ReferenceSystem, State};
use ndarray::arr1;
use quantity::*;
use std::sync::Arc;

fn smallest_eigenvalue(state: &State<PengRobinson>) -> f64 {
    let h = state.dmu_dni(Contributions::Total).to_reduced();
    let n = state.moles.to_reduced();
    let t = state.temperature.to_reduced();
    if n.len() == 1 { return n[0] * h[(0, 0)] / t; }
    let q = |i: usize, j: usize| (n[i] * n[j]).sqrt() * h[(i, j)] / t;
    let (a, b, d) = (q(0, 0), 0.5 * (q(0, 1) + q(1, 0)), q(1, 1));
    0.5 * (a + d) - (0.25 * (a - d) * (a - d) + b * b).sqrt()
}

#[test]
fn vx_witness_critical_point() {
    let eos = Arc::new(PengRobinson::new(Arc::new(PengRobinsonParameters::new_simple(&[369.96, 425.2], &[4250000.0, 3800000.0], &[0.153, 0.199], &[44.0962, 58.123]).unwrap())));
    let (mut n_ok, mut n_bad) = (0, 0);
    let mut report = |bad: bool, msg: String| { n_ok += 1; if bad { n_bad += 1; if n_bad <= 8 { println!("WITNESS {msg}"); } } };
    for x1 in [0.1, 0.2, 0.5, 0.8, 0.9] {
        let moles = arr1(&[x1, 1.0 - x1]) * MOL;
        if let Ok(cp) = State::critical_point(&eos, Some(&moles), None, Default::default()) {
            let ev = smallest_eigenvalue(&cp);
            report(!(ev.abs() < 1e-6) || !(cp.pressure(Contributions::Total) > 0.0 * PASCAL), format!("critical_point(x1={x1}) = (T={}, rho={}): smallest eigenvalue of the scaled Hessian {ev:e}, p = {}", cp.temperature, cp.density, cp.pressure(Contributions::Total)));
            // spinodals below the critical temperature
            let t = 0.9 * cp.temperature;
            if let Ok([sv, sl]) = State::spinodal(&eos, t, Some(&moles), Default::default()) {
                for (s, name) in [(&sv, "vapor"), (&sl, "liquid")] {
                    let ev = smallest_eigenvalue(s);
                    let same_n = (s.moles.to_reduced() - moles.to_reduced()).mapv(f64::abs).sum() < 1e-12 * moles.to_reduced().sum();
                    report(s.temperature != t || !same_n || !(ev.abs() < 1e-6), format!("spinodal(x1={x1}, T={t}) {name}: T={}, moles={}, smallest eigenvalue {ev:e}", s.temperature, s.moles));
                }
                report(!(sv.density < cp.density && cp.density < sl.density), format!("spinodal(x1={x1}, T={t}): densities {} / {} do not bracket the critical density {}", sv.density, sl.density, cp.density));
            }
        }
    }
    for t in [380.0, 400.0, 420.0] {
        let t = t * KELVIN;
        if let Ok(cp) = State::critical_point_binary(&eos, t, None, None, Default::default()) {
            let ev = smallest_eigenvalue(&cp);
            report(cp.temperature != t || !(ev.abs() < 1e-6), format!("critical_point_binary(T={t}) returned T={}, smallest eigenvalue {ev:e}", cp.temperature));
            // both criticality conditions (eigenvalue AND third directional derivative): the fixed-composition solver,
            // started at the returned state, must stay there
            let moles = &cp.molefracs * MOL;
            if let Ok(cx) = State::critical_point(&eos, Some(&moles), Some(t), Default::default()) {
                let dt = ((cx.temperature - t) / t).into_value().abs();
                report(!(dt < 1e-6), format!("critical_point_binary(T={t}) returned x1={}, but the critical temperature of that composition is {} (the returned state is on the spinodal, not critical)", cp.molefracs[0], cx.temperature));
            }
        }
    }
    for p in [39.0, 41.0, 42.0] {
        let p = p * BAR;
        if let Ok(cp) = State::critical_point_binary(&eos, p, None, None, Default::default()) {
            let ev = smallest_eigenvalue(&cp);
            let dp = ((cp.pressure(Contributions::Total) - p) / p).into_value().abs();
            report(!(dp < 1e-6) || !(ev.abs() < 1e-6), format!("critical_point_binary(p={p}) returned p={}, smallest eigenvalue {ev:e}", cp.pressure(Contributions::Total)));
            let moles = &cp.molefracs * MOL;
            if let Ok(cx) = State::critical_point(&eos, Some(&moles), Some(cp.temperature), Default::default()) {
                let dt = ((cx.temperature - cp.temperature) / cp.temperature).into_value().abs();
                report(!(dt < 1e-6), format!("critical_point_binary(p={p}) returned T={}, x1={}, but the critical temperature of that composition is {}", cp.temperature, cp.molefracs[0], cx.temperature));
            }
        }
    }
    println!("explored: {n_ok} checks, {n_bad} off");
}
