// Witness search for C14.3 (run by ./check against a scratch copy; integration test of `feos`, --features pcsaft).
// Homosegmented group-contribution construction (PcSaftParameters::from_segments) of ternary and quaternary mixtures of
// propane, butane, ethanol, 1-propanol in several orders, with binary segment records (CH3,OH), (CH2,OH): the k_ij of
// every pair of substances must be the documented count-weighted average over the segment pairs of THAT pair,
// sum(k_ab n_a n_b) / sum(n_a n_b) - whatever else is in the mixture, wherever the pair stands - and the matrix symmetric
// with a zero diagonal; anything else is printed as `WITNESS ...`.
#![cfg(feature = "pcsaft")]
use feos::pcsaft::PcSaftParameters;
use feos_core::parameter::{BinaryRecord, ChemicalRecord, Parameter, SegmentRecord};

fn counts(name: &str) -> [f64; 3] {
    // (CH3, CH2, OH)
    match name { "propane" => [2.0, 1.0, 0.0], "butane" => [2.0, 2.0, 0.0], "ethanol" => [1.0, 1.0, 1.0], _ => [1.0, 2.0, 1.0] }
}
fn chemical(name: &str) -> ChemicalRecord {
    let c = counts(name);
    let mut segs: Vec<String> = vec![];
    for (k, id) in ["CH3", "CH2", "OH"].iter().enumerate() { for _ in 0..(c[k] as usize) { segs.push(id.to_string()); } }
    ChemicalRecord::new(Default::default(), segs, None)
}
fn expected(a: &str, b: &str) -> f64 {
    let (ca, cb) = (counts(a), counts(b));
    let k = |x: usize, y: usize| match (x, y) { (0, 2) | (2, 0) => -0.2, (1, 2) | (2, 1) => -0.1, _ => 0.0 };
    let (mut num, mut den) = (0.0, 0.0);
    for x in 0..3 { for y in 0..3 { num += k(x, y) * ca[x] * cb[y]; den += ca[x] * cb[y]; } }
    num / den
}

#[test]
fn vx_witness_from_segments() {
    let (mut n_ok, mut n_bad) = (0, 0);
    let Ok(segment_records) = SegmentRecord::from_json("parameters/pcsaft/sauer2014_homo.json") else { return };
    let recs = || vec![BinaryRecord::new("CH3".to_string(), "OH".to_string(), -0.2), BinaryRecord::new("CH2".to_string(), "OH".to_string(), -0.1)];
    let mixtures: Vec<Vec<&str>> = vec![
        vec!["propane", "butane", "ethanol"], vec!["ethanol", "propane", "butane"], vec!["butane", "ethanol", "propane"],
        vec!["ethanol", "1-propanol", "propane"], vec!["propane", "ethanol", "butane", "1-propanol"], vec!["1-propanol", "butane", "ethanol", "propane"],
    ];
    for mix in mixtures {
        let Ok(p) = PcSaftParameters::from_segments(mix.iter().map(|n| chemical(n)).collect(), segment_records.clone(), Some(recs())) else { continue };
        let k = p.binary_records.as_ref().unwrap();
        for i in 0..mix.len() {
            for j in 0..mix.len() {
                let want = if i == j { 0.0 } else { expected(mix[i], mix[j]) };
                n_ok += 1;
                if !((k[[i, j]].k_ij - want).abs() < 1e-14) {
                    n_bad += 1;
                    if n_bad <= 6 { println!("WITNESS from_segments({mix:?}): k_ij[{i},{j}] ({} - {}) = {}, count-weighted average over the segment pairs of that pair = {want}", mix[i], mix[j], k[[i, j]].k_ij); }
                }
            }
        }
    }
    println!("explored: {n_ok} matrix entries, {n_bad} off");
}
