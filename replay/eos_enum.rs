// Witness search for C08.2 (run by ./check against a scratch copy; integration test of `feos`, --features pcsaft).
// `ResidualModel` variants (PC-SAFT propane/butane with viscosity parameters, Peng-Robinson) against the models they
// wrap: components, subset, compute_max_density, residual Helmholtz energy, molar weight, has_molar_weight and the
// entropy-scaling methods must return what the wrapped model returns; `IdealGasModel::NoModel(n)` has n components and
// its subset has as many components as the list.  Anything else is printed as `WITNESS ...`.
#![cfg(feature = "pcsaft")]
use feos::ideal_gas::IdealGasModel;
use feos::pcsaft::{PcSaft, PcSaftParameters};
use feos::ResidualModel;
use feos_core::cubic::{PengRobinson, PengRobinsonParameters};
use feos_core::parameter::{IdentifierOption, Parameter};
use feos_core::{Components, EntropyScaling, Molarweight, Residual, StateHD};
use ndarray::arr1;
use quantity::*;
use std::sync::Arc;

#[test]
fn vx_witness_eos_enum() {
    let (mut n_ok, mut n_bad) = (0, 0);
    let mut check = |what: &str, same: bool, detail: String| {
        n_ok += 1;
        if !same {
            n_bad += 1;
            if n_bad <= 8 { println!("WITNESS ResidualModel::{what} differs from the wrapped model: {detail}"); }
        }
    };
    let params = Arc::new(PcSaftParameters::from_json(vec!["propane", "hexane"], "parameters/pcsaft/loetgeringlin2018.json", None, IdentifierOption::Name).unwrap());
    let m = PcSaft::new(params.clone());
    let e = ResidualModel::PcSaft(PcSaft::new(params.clone()));
    let n = arr1(&[1.2, 0.8]);
    let s = StateHD::new(300.0, 500.0, n.clone());
    check("PcSaft.components", e.components() == m.components(), format!("{} vs {}", e.components(), m.components()));
    check("PcSaft.subset", e.subset(&[1]).components() == 1 && e.subset(&[1]).compute_max_density(&arr1(&[1.0])) == m.subset(&[1]).compute_max_density(&arr1(&[1.0])), "subset([1])".into());
    check("PcSaft.compute_max_density", e.compute_max_density(&n) == m.compute_max_density(&n), format!("{} vs {}", e.compute_max_density(&n), m.compute_max_density(&n)));
    check("PcSaft.residual_helmholtz_energy", e.residual_helmholtz_energy(&s) == m.residual_helmholtz_energy(&s), format!("{} vs {}", e.residual_helmholtz_energy(&s), m.residual_helmholtz_energy(&s)));
    check("PcSaft.residual_helmholtz_energy_contributions", e.residual_helmholtz_energy_contributions(&s) == m.residual_helmholtz_energy_contributions(&s), "contribution lists".into());
    check("PcSaft.molar_weight", e.molar_weight() == m.molar_weight() && e.has_molar_weight(), format!("{} vs {}", e.molar_weight(), m.molar_weight()));
    let (t, v, nq) = (300.0 * KELVIN, 1e-3 * METER * METER * METER, n.clone() * MOL);
    let x = arr1(&[0.6, 0.4]);
    check("PcSaft.viscosity_reference", e.viscosity_reference(t, v, &nq).ok() == m.viscosity_reference(t, v, &nq).ok(), "viscosity_reference".into());
    check("PcSaft.viscosity_correlation", e.viscosity_correlation(-1.3, &x).ok() == m.viscosity_correlation(-1.3, &x).ok(), format!("{:?} vs {:?}", e.viscosity_correlation(-1.3, &x).ok(), m.viscosity_correlation(-1.3, &x).ok()));
    // single-component methods
    let p1 = Arc::new(PcSaftParameters::from_json(vec!["propane"], "parameters/pcsaft/loetgeringlin2018.json", None, IdentifierOption::Name).unwrap());
    let m1 = PcSaft::new(p1.clone());
    let e1 = ResidualModel::PcSaft(PcSaft::new(p1.clone()));
    let (n1, x1) = (arr1(&[2.0]) * MOL, arr1(&[1.0]));
    check("PcSaft.diffusion_reference", e1.diffusion_reference(t, v, &n1).ok() == m1.diffusion_reference(t, v, &n1).ok(), "diffusion_reference".into());
    check("PcSaft.thermal_conductivity_reference", e1.thermal_conductivity_reference(t, v, &n1).ok() == m1.thermal_conductivity_reference(t, v, &n1).ok(), "thermal_conductivity_reference".into());
    // the correlations of properties without parameters panic in the model itself: compare only what is defined
    if p1.diffusion.is_some() {
        check("PcSaft.diffusion_correlation", e1.diffusion_correlation(-1.3, &x1).ok() == m1.diffusion_correlation(-1.3, &x1).ok(), "diffusion_correlation".into());
    }
    if p1.thermal_conductivity.is_some() {
        check("PcSaft.thermal_conductivity_correlation", e1.thermal_conductivity_correlation(-1.3, &x1).ok() == m1.thermal_conductivity_correlation(-1.3, &x1).ok(), "thermal_conductivity_correlation".into());
    }
    // Peng-Robinson
    let pr = PengRobinson::new(Arc::new(PengRobinsonParameters::new_simple(&[369.96, 425.2], &[4250000.0, 3800000.0], &[0.153, 0.199], &[44.0962, 58.123]).unwrap()));
    let epr = ResidualModel::PengRobinson(PengRobinson::new(Arc::new(PengRobinsonParameters::new_simple(&[369.96, 425.2], &[4250000.0, 3800000.0], &[0.153, 0.199], &[44.0962, 58.123]).unwrap())));
    check("PengRobinson.components", epr.components() == pr.components(), "components".into());
    check("PengRobinson.compute_max_density", epr.compute_max_density(&n) == pr.compute_max_density(&n), "max density".into());
    check("PengRobinson.residual_helmholtz_energy", epr.residual_helmholtz_energy(&s) == pr.residual_helmholtz_energy(&s), "A_res".into());
    check("PengRobinson.molar_weight", epr.molar_weight() == pr.molar_weight() && epr.has_molar_weight(), "molar weight".into());
    check("NoResidual.has_molar_weight", !ResidualModel::NoResidual(feos_core::NoResidual(2)).has_molar_weight(), "has_molar_weight of NoResidual".into());
    // ideal gas enum
    let ig = IdealGasModel::NoModel(3);
    check("IdealGasModel::NoModel.components", ig.components() == 3, format!("{}", ig.components()));
    check("IdealGasModel::NoModel.subset", ig.subset(&[2, 0]).components() == 2, format!("{}", ig.subset(&[2, 0]).components()));
    println!("explored: {n_ok} forwarded calls, {n_bad} off");
}
