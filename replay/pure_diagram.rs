// Witness search for C04.6 (run by ./check against a scratch copy; integration test of `feos-core`).
// Pure-component phase diagrams of Peng-Robinson fluids with and without an estimate of the critical temperature (too low,
// too high, exact): the estimate is a starting value only, so every diagram must have n states, the same temperatures as
// the diagram computed without an estimate, and the critical point last.  Anything else is printed as `WITNESS ...`.
use feos_core::cubic::{PengRobinson, PengRobinsonParameters};
use feos_core::{PhaseDiagram, SolverOptions, State};
use quantity::*;
use std::sync::Arc;

#[test]
fn vx_witness_pure_diagram() {
    let (mut n_ok, mut n_bad) = (0, 0);
    for (name, tc, pc, omega, mw) in [("propane", 369.96, 4.25e6, 0.153, 44.0962), ("methane", 190.56, 4.599e6, 0.011, 16.04), ("octane", 568.7, 2.49e6, 0.398, 114.23)] {
        let Ok(params) = PengRobinsonParameters::new_simple(&[tc], &[pc], &[omega], &[mw]) else { continue };
        let eos = Arc::new(PengRobinson::new(Arc::new(params)));
        let Ok(cp) = State::critical_point(&eos, None, None, SolverOptions::default()) else { continue };
        for npoints in [5usize, 21] {
            let t_min = 0.6 * cp.temperature;
            let Ok(reference) = PhaseDiagram::pure(&eos, t_min, npoints, None, SolverOptions::default()) else { continue };
            for factor in [0.9, 0.97, 1.0, 1.04, 1.1] {
                let estimate = factor * cp.temperature;
                let Ok(dia) = PhaseDiagram::pure(&eos, t_min, npoints, Some(estimate), SolverOptions::default()) else { continue };
                n_ok += 1;
                let same = dia.states.len() == reference.states.len()
                    && dia.states.iter().zip(&reference.states).all(|(a, b)| ((a.vapor().temperature - b.vapor().temperature) / b.vapor().temperature).into_value().abs() < 1e-6);
                let last_is_critical = dia.states.last().map(|s| ((s.vapor().temperature - cp.temperature) / cp.temperature).into_value().abs() < 1e-6).unwrap_or(false);
                if dia.states.len() != npoints || !same || !last_is_critical {
                    n_bad += 1;
                    if n_bad <= 8 {
                        let t_last = if dia.states.len() >= 2 { dia.states[dia.states.len() - 2].vapor().temperature } else { t_min };
                        let t_last_ref = if reference.states.len() >= 2 { reference.states[reference.states.len() - 2].vapor().temperature } else { t_min };
                        println!("WITNESS PhaseDiagram::pure, Peng-Robinson {name}, T_min = {t_min}, {npoints} points, critical-temperature estimate {estimate} (T_c = {}): {} states, last subcritical temperature {t_last}; without an estimate {} states, last subcritical temperature {t_last_ref}", cp.temperature, dia.states.len(), reference.states.len());
                    }
                }
            }
        }
    }
    println!("explored: {n_ok} phase diagrams with an estimate, {n_bad} off");
}
