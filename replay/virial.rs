// Witness search for C13.1 (run by ./check against a scratch copy; integration test of `feos-core`).
// A probe model whose residual Helmholtz energy is a polynomial in the partial densities,
//   beta A / V = (b0 T + b1 / T) (x-weighted) rho^2 + (c0 + c1 T^2) rho^3 ,   rho_i = N_i / V,
// is run through the real virial-coefficient functions: B, C, dB/dT, dC/dT must equal the hand values, and B must equal
// (Z - 1) / rho extrapolated from two real low-density states; anything else is printed as `WITNESS ...`.
use feos_core::{Components, Contributions, ReferenceSystem, Residual, State, StateHD};
use ndarray::{arr1, Array1, ScalarOperand};
use num_dual::DualNum;
use quantity::*;
use std::sync::Arc;

struct P { b0: f64, b1: f64, c0: f64, c1: f64, w: [f64; 2] }
impl Components for P { fn components(&self) -> usize { 2 } fn subset(&self, _: &[usize]) -> Self { unimplemented!() } }
impl Residual for P {
    fn compute_max_density(&self, _: &Array1<f64>) -> f64 { 1.0 }
    fn residual_helmholtz_energy_contributions<D: DualNum<f64> + Copy + ScalarOperand>(&self, s: &StateHD<D>) -> Vec<(String, D)> {
        let t = s.temperature;
        let r = s.partial_density[0] * self.w[0] + s.partial_density[1] * self.w[1];
        let rho = s.partial_density[0] + s.partial_density[1];
        vec![("p".into(), s.volume * ((t * self.b0 + t.recip() * self.b1) * r * r + (t * t * self.c1 + self.c0) * rho * rho * rho))]
    }
}

#[test]
fn vx_witness_virial() {
    let p = P { b0: 0.7, b1: -250.0, c0: 3.0, c1: 1e-4, w: [1.0, 2.5] };
    let (b0, b1, c0, c1, w) = (p.b0, p.b1, p.c0, p.c1, p.w);
    let eos = Arc::new(p);
    let (mut n_ok, mut n_bad) = (0, 0);
    let mut close = |what: &str, got: f64, exp: f64, tol: f64| {
        n_ok += 1;
        if !((got - exp).abs() <= tol * (1.0 + exp.abs())) {
            n_bad += 1;
            if n_bad <= 8 { println!("WITNESS {what}: got {got:e}, expected {exp:e}"); }
        }
    };
    for t in [250.0, 310.0, 500.0] {
        for x0 in [1.0, 0.3, 0.0] {
            let moles = Moles::from_reduced(arr1(&[2.0 * x0, 2.0 * (1.0 - x0)]));
            let xw = x0 * w[0] + (1.0 - x0) * w[1];
            let temp = Temperature::from_reduced(t);
            // a(rho) = (b0 T + b1/T) xw^2 rho^2 + (c0 + c1 T^2) rho^3
            let (b, c) = ((b0 * t + b1 / t) * xw * xw, 2.0 * (c0 + c1 * t * t));
            let (bt, ct) = ((b0 - b1 / (t * t)) * xw * xw, 4.0 * c1 * t);
            let tag = format!("(T={t}, x0={x0})");
            close(&format!("second_virial_coefficient{tag}"), eos.second_virial_coefficient(temp, Some(&moles)).unwrap().to_reduced(), b, 1e-12);
            close(&format!("third_virial_coefficient{tag}"), eos.third_virial_coefficient(temp, Some(&moles)).unwrap().to_reduced(), c, 1e-12);
            close(&format!("second_virial_coefficient_temperature_derivative{tag}"), eos.second_virial_coefficient_temperature_derivative(temp, Some(&moles)).unwrap().to_reduced(), bt, 1e-12);
            close(&format!("third_virial_coefficient_temperature_derivative{tag}"), eos.third_virial_coefficient_temperature_derivative(temp, Some(&moles)).unwrap().to_reduced(), ct, 1e-12);
            // (Z - 1) / rho from real states at two small densities, extrapolated linearly to zero density
            let zm1 = |rho: f64| {
                let s = State::new_nvt(&eos, temp, Volume::from_reduced(2.0 / rho), &moles).unwrap();
                (s.compressibility(Contributions::Total) - 1.0) / rho
            };
            let (r1, r2) = (1e-5, 2e-5);
            let (z1, z2) = (zm1(r1), zm1(r2));
            close(&format!("lim (Z-1)/rho vs B {tag}"), z1 - (z2 - z1) / (r2 - r1) * r1, eos.second_virial_coefficient(temp, Some(&moles)).unwrap().to_reduced(), 1e-6);
            close(&format!("d/drho (Z-1)/rho vs C {tag}"), (z2 - z1) / (r2 - r1), eos.third_virial_coefficient(temp, Some(&moles)).unwrap().to_reduced(), 1e-4);
        }
    }
    println!("explored: {n_ok} values, {n_bad} off");
}

// The same for a ONE-component probe model: the virial coefficients must not depend on the amount of substance handed in
// (None, the reference amount, a macroscopic amount), and must equal the hand values.
struct P1 { b0: f64, b1: f64, c0: f64, c1: f64 }
impl Components for P1 { fn components(&self) -> usize { 1 } fn subset(&self, _: &[usize]) -> Self { unimplemented!() } }
impl Residual for P1 {
    fn compute_max_density(&self, _: &Array1<f64>) -> f64 { 1.0 }
    fn residual_helmholtz_energy_contributions<D: DualNum<f64> + Copy + ScalarOperand>(&self, s: &StateHD<D>) -> Vec<(String, D)> {
        let t = s.temperature;
        let rho = s.partial_density[0];
        vec![("p".into(), s.volume * ((t * self.b0 + t.recip() * self.b1) * rho * rho + (t * t * self.c1 + self.c0) * rho * rho * rho))]
    }
}

#[test]
fn vx_witness_virial_pure() {
    let p = P1 { b0: 0.7, b1: -250.0, c0: 3.0, c1: 1e-4 };
    let (b0, b1, c0, c1) = (p.b0, p.b1, p.c0, p.c1);
    let eos = Arc::new(p);
    let (mut n_ok, mut n_bad) = (0, 0);
    for t in [250.0, 310.0, 500.0] {
        let temp = Temperature::from_reduced(t);
        let (b, c) = (b0 * t + b1 / t, 2.0 * (c0 + c1 * t * t));
        let (bt, ct) = (b0 - b1 / (t * t), 4.0 * c1 * t);
        let amounts: Vec<(String, Option<Moles<Array1<f64>>>)> = vec![
            ("no amount given".into(), None),
            ("2.5 reduced units".into(), Some(Moles::from_reduced(arr1(&[2.5])))),
            ("2.5 mol".into(), Some(arr1(&[2.5]) * MOL)),
            ("1e-3 mol".into(), Some(arr1(&[1e-3]) * MOL)),
        ];
        for (what, moles) in &amounts {
            let m = moles.as_ref();
            let got = [
                ("second_virial_coefficient", eos.second_virial_coefficient(temp, m).map(|x| x.to_reduced()), b),
                ("third_virial_coefficient", eos.third_virial_coefficient(temp, m).map(|x| x.to_reduced()), c),
                ("second_virial_coefficient_temperature_derivative", eos.second_virial_coefficient_temperature_derivative(temp, m).map(|x| x.to_reduced()), bt),
                ("third_virial_coefficient_temperature_derivative", eos.third_virial_coefficient_temperature_derivative(temp, m).map(|x| x.to_reduced()), ct),
            ];
            for (name, g, exp) in got {
                n_ok += 1;
                match g {
                    Ok(g) if (g - exp).abs() <= 1e-10 * (1.0 + exp.abs()) => {}
                    Ok(g) => { n_bad += 1; if n_bad <= 8 { println!("WITNESS one-component model, {name} at T={t} with {what}: got {g:e}, expected {exp:e}"); } }
                    Err(e) => { n_bad += 1; if n_bad <= 8 { println!("WITNESS one-component model, {name} at T={t} with {what}: error {e}"); } }
                }
            }
        }
    }
    println!("explored: {n_ok} virial coefficients of a one-component model, {n_bad} off");
}
