// Witness search for C03.8b / C03.7 (run by ./check against a scratch copy; integration test of `feos-core`).
// Peng-Robinson propane with a constant-c_v ideal gas.  For reference states (vapor, liquid, supercritical) the molar
// enthalpy / entropy / internal energy of the reference is handed back as an iterative specification - (p,h), (p,s),
// (T,h), (T,s), (V,u), with and without an initial temperature, through the builder - and the returned state must
// reproduce the requested value and the fixed variable; anything else is printed as `WITNESS ...`.
use feos_core::cubic::{PengRobinson, PengRobinsonParameters};
use feos_core::{Components, Contributions, EquationOfState, IdealGas, State, StateBuilder};
use ndarray::{arr1, Array1};
use num_dual::DualNum;
use quantity::*;
use std::sync::Arc;

struct ConstantCv;
impl Components for ConstantCv {
    fn components(&self) -> usize { 1 }
    fn subset(&self, _: &[usize]) -> Self { Self }
}
impl IdealGas for ConstantCv {
    fn ln_lambda3<D: DualNum<f64> + Copy>(&self, temperature: D) -> Array1<D> { arr1(&[temperature.ln() * (-7.0)]) }
    fn ideal_gas_model(&self) -> String { "constant cv".into() }
}
type Eos = EquationOfState<ConstantCv, PengRobinson>;

macro_rules! rel { ($a:expr, $b:expr) => { ((($a - $b) / $b).into_value()).abs() } }
// phase hint and optional starting temperature on a builder expression
macro_rules! hinted { ($b:expr, $liquid:expr, $t0:expr) => {{
    match ($liquid, $t0) {
        (true, Some(t0)) => $b.liquid().initial_temperature(t0 * KELVIN).build(),
        (true, None) => $b.liquid().build(),
        (false, Some(t0)) => $b.vapor().initial_temperature(t0 * KELVIN).build(),
        (false, None) => $b.vapor().build(),
    }
}}}

#[test]
fn vx_witness_iterative() {
    let parameters = PengRobinsonParameters::new_simple(&[369.8], &[41.9 * 1e5], &[0.15], &[15.0]).unwrap();
    let eos: Arc<Eos> = Arc::new(EquationOfState::new(Arc::new(ConstantCv), Arc::new(PengRobinson::new(Arc::new(parameters)))));
    let c = Contributions::Total;
    let (mut n_ok, mut n_bad) = (0, 0);
    let mut report = |what: &str, off: bool, detail: String| {
        n_ok += 1;
        if off {
            n_bad += 1;
            if n_bad <= 6 { println!("WITNESS {what}: {detail}"); }
        }
    };
    for (t, p, liquid) in [(350.0, 5.0, false), (300.0, 2.0, false), (280.0, 20.0, true), (420.0, 60.0, false)] {
        let b = StateBuilder::new(&eos).temperature(t * KELVIN).pressure(p * BAR).total_moles(2.0 * MOL);
        let none0: Option<f64> = None;
        let Ok(r) = hinted!(b, liquid, none0) else { continue };
        let (h, s, u) = (r.molar_enthalpy(c), r.molar_entropy(c), r.molar_internal_energy(c));
        for t0 in [None, Some(0.9 * t), Some(1.15 * t)] {
            if let Ok(x) = hinted!(StateBuilder::new(&eos).pressure(p * BAR).molar_enthalpy(h).total_moles(2.0 * MOL), liquid, t0) {
                report("(p,h)", !(rel!(x.molar_enthalpy(c), h) < 1e-6 && rel!(x.pressure(c), p * BAR) < 1e-6), format!("T0={t0:?}: requested h={h} p={} bar, got h={} p={} T={}", p, x.molar_enthalpy(c), x.pressure(c), x.temperature));
            }
            if let Ok(x) = hinted!(StateBuilder::new(&eos).pressure(p * BAR).molar_entropy(s).total_moles(2.0 * MOL), liquid, t0) {
                report("(p,s)", !(rel!(x.molar_entropy(c), s) < 1e-6 && rel!(x.pressure(c), p * BAR) < 1e-6), format!("T0={t0:?}: requested s={s} p={} bar, got s={} p={} T={}", p, x.molar_entropy(c), x.pressure(c), x.temperature));
            }
            if let Ok(x) = hinted!(StateBuilder::new(&eos).volume(r.volume).molar_internal_energy(u).total_moles(2.0 * MOL), liquid, t0) {
                report("(V,u)", !(rel!(x.molar_internal_energy(c), u) < 1e-6 && x.volume == r.volume), format!("T0={t0:?}: requested u={u} V={}, got u={} V={} T={}", r.volume, x.molar_internal_energy(c), x.volume, x.temperature));
            }
        }
        let none: Option<f64> = None;
        if let Ok(x) = hinted!(StateBuilder::new(&eos).temperature(t * KELVIN).molar_enthalpy(h).total_moles(2.0 * MOL), liquid, none) {
            report("(T,h)", !(rel!(x.molar_enthalpy(c), h) < 1e-6 && x.temperature == t * KELVIN), format!("requested h={h} T={t} K, got h={} T={}", x.molar_enthalpy(c), x.temperature));
        }
        if let Ok(x) = hinted!(StateBuilder::new(&eos).temperature(t * KELVIN).molar_entropy(s).total_moles(2.0 * MOL), liquid, none) {
            report("(T,s)", !(rel!(x.molar_entropy(c), s) < 1e-6 && x.temperature == t * KELVIN), format!("requested s={s} T={t} K, got s={} T={}", x.molar_entropy(c), x.temperature));
        }
        let _ = State::new_nvt(&eos, t * KELVIN, r.volume, &r.moles);
    }
    println!("explored: {n_ok} iterative specifications, {n_bad} off");
}
