// Witness search for C01 second tier (unit state_props2; run by ./check against a scratch copy; feos-core test).
// Peng-Robinson propane/butane at a liquid, a vapor and a supercritical state: the (T, p, N) derivatives of ln phi,
// the partial molar volume are compared with central differences over neighbouring
// `State::new_npt` states; a relative deviation above 1e-5 is printed as `WITNESS ...`.
use feos_core::cubic::{PengRobinson, PengRobinsonParameters};
use feos_core::{DensityInitialization, ReferenceSystem, State};
use ndarray::{arr1, Array1};
use quantity::*;
use std::sync::Arc;

fn bad(name: &str, st: &str, got: f64, exp: f64) {
    if !((got - exp).abs() <= 1e-5 * (exp.abs() + 1e-8 * (1.0 + got.abs()))) && (got - exp).abs() > 1e-9 {
        println!("WITNESS property-method={name} state=\"PR propane/butane {st}\" got={got:e} expected_from_central_difference={exp:e}");
    }
}

#[test]
fn vx_witness_derived_fd() {
    let p2 = PengRobinsonParameters::new_simple(&[369.8, 425.2], &[41.9 * 1e5, 37.9 * 1e5], &[0.15, 0.2], &[44.1, 58.1]).unwrap();
    let eos = Arc::new(PengRobinson::new(Arc::new(p2)));
    for (label, t, p, n, init) in [
        ("liquid T=300K p=30bar N=[1.2,2.1]", 300.0, 30.0, [1.2, 2.1], DensityInitialization::Liquid),
        ("vapor T=350K p=3bar N=[0.7,0.4]", 350.0, 3.0, [0.7, 0.4], DensityInitialization::Vapor),
        ("supercritical T=480K p=60bar N=[1.0,1.5]", 480.0, 60.0, [1.0, 1.5], DensityInitialization::Vapor),
    ] {
        let (tk, pb) = (t * KELVIN, p * BAR);
        let at = |tk: Temperature, pb: Pressure, n: [f64; 2], rho: Density| {
            State::new_npt(&eos, tk, pb, &(arr1(&n) * MOL), DensityInitialization::InitialDensity(rho)).unwrap()
        };
        let s = State::new_npt(&eos, tk, pb, &(arr1(&n) * MOL), init).unwrap();
        let rho = s.density;
        // d ln phi_i / d N_j at constant T, p  and partial molar volume
        let dnj = (s.dln_phi_dnj() * MOL).into_value();
        let vi = s.partial_molar_volume();
        for j in 0..2 {
            let h = 1e-5 * n[j];
            let (mut np, mut nm) = (n, n);
            np[j] += h; nm[j] -= h;
            let (sp, sm) = (at(tk, pb, np, rho), at(tk, pb, nm, rho));
            let d = (sp.ln_phi() - sm.ln_phi()) / (2.0 * h);
            for i in 0..2 { bad(&format!("dln_phi_dnj[{i},{j}]"), label, dnj[(i, j)], d[i]); }
            let dv = ((sp.volume - sm.volume) / (2.0 * h * MOL)).to_reduced();
            bad(&format!("partial_molar_volume[{j}]"), label, vi.get(j).to_reduced(), dv);
        }
        // d ln phi / dT at constant p, N
        let ht = 1e-4 * t;
        let (sp, sm) = (at((t + ht) * KELVIN, pb, n, rho), at((t - ht) * KELVIN, pb, n, rho));
        let d: Array1<f64> = (sp.ln_phi() - sm.ln_phi()) / (2.0 * ht);
        let got = (s.dln_phi_dt() * KELVIN).into_value();
        for i in 0..2 { bad(&format!("dln_phi_dt[{i}]"), label, got[i], d[i]); }
        // d ln phi / dp at constant T, N
        let hp = 1e-5 * p;
        let (sp, sm) = (at(tk, (p + hp) * BAR, n, rho), at(tk, (p - hp) * BAR, n, rho));
        let d: Array1<f64> = (sp.ln_phi() - sm.ln_phi()) / (2.0 * hp);
        let got = (s.dln_phi_dp() * BAR).into_value();
        for i in 0..2 { bad(&format!("dln_phi_dp[{i}]"), label, got[i], d[i]); }
    }
}
