// Witness search for C10.4a (run by ./check against a scratch copy; integration test of `feos`).
// Joback ideal-gas models built from hand-made records: the directly evaluated molar isobaric heat capacity of one, two
// and three components must be the mole-fraction average of the component polynomials a + bT + cT^2 + dT^3 + eT^4
// (in J/mol/K) times the unit factor R_SI / R_reduced the function applies (quantity::RGAS over the model's own
// 6.022140857 * 1.38064852: they differ by 3.3e-7 relative - CODATA 2018 vs 2014); anything else is printed as `WITNESS ...`.
use feos::ideal_gas::{Joback, JobackRecord};
use feos_core::parameter::{Identifier, Parameter, PureRecord};
use ndarray::arr1;
use quantity::*;

#[test]
fn vx_witness_joback_cp() {
    let recs = [
        JobackRecord::new(-5.1, 0.30, -1.2e-4, 8.0e-9, 0.0),
        JobackRecord::new(12.0, 0.21, -3.9e-5, -2.0e-8, 1.5e-12),
        JobackRecord::new(30.4, -0.05, 2.2e-4, -1.1e-7, 2.0e-11),
    ];
    let poly = |r: &JobackRecord, t: f64| r.a + r.b * t + r.c * t * t + r.d * t * t * t + r.e * t * t * t * t;
    let (mut n_ok, mut n_bad) = (0, 0);
    for n in 1..=3usize {
        let pure: Vec<PureRecord<JobackRecord>> = recs[..n].iter().map(|r| PureRecord::new(Identifier::default(), 1.0, r.clone())).collect();
        let Ok(model) = Joback::from_records(pure, None) else { continue };
        for t in [250.0, 300.0, 450.0, 800.0] {
            for w in [[1.0, 0.0, 0.0], [0.2, 0.5, 0.3], [0.6, 0.4, 0.0]] {
                let s: f64 = w[..n].iter().sum();
                if s == 0.0 { continue; }
                let x = arr1(&w[..n]) / s;
                let Ok(cp) = model.molar_isobaric_heat_capacity(t * KELVIN, &x) else { continue };
                let got = cp.convert_to(JOULE / (MOL * KELVIN));
                let factor = RGAS.convert_to(JOULE / (MOL * KELVIN)) / (6.022140857 * 1.38064852);
                let want: f64 = (0..n).map(|k| x[k] * poly(&recs[k], t)).sum::<f64>() * factor;
                n_ok += 1;
                if !((got - want).abs() <= 1e-10 * want.abs()) {
                    n_bad += 1;
                    if n_bad <= 6 { println!("WITNESS Joback::molar_isobaric_heat_capacity({n} components, T={t} K, x={x}) = {got} J/mol/K, mole-fraction average of the polynomials = {want}"); }
                }
            }
        }
    }
    println!("explored: {n_ok} heat capacities, {n_bad} off");
}
