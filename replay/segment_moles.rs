// Witness search for C16.3 (run by ./check against a scratch copy; integration test of `feos`, --features "dft gc_pcsaft").
// Uniform profiles of heterosegmented (group-contribution) mixtures - propane/butane, butane/propane, ethane/pentane - on
// Cartesian, spherical and polar grids: the amount of every component reported by DFTProfile::moles() must be rho_i * V
// and total_moles() must be rho * V; anything else is printed as `WITNESS ...`.
#![cfg(all(feature = "dft", feature = "gc_pcsaft"))]
use feos::gc_pcsaft::{GcPcSaftFunctional, GcPcSaftFunctionalParameters};
use feos_core::parameter::{IdentifierOption, ParameterHetero};
use feos_core::{Components, State};
use feos_dft::{Axis, DFTProfile, Grid};
use ndarray::{arr1, Ix1};
use quantity::*;
use std::sync::Arc;
use typenum::P3;

#[test]
fn vx_witness_segment_moles() {
    let (mut n_ok, mut n_bad) = (0, 0);
    for (names, n) in [(vec!["propane", "butane"], [30.0, 70.0]), (vec!["butane", "propane"], [60.0, 40.0]), (vec!["ethane", "pentane"], [20.0, 80.0])] {
        let Ok(parameters) = GcPcSaftFunctionalParameters::from_json_segments(&names, "parameters/pcsaft/gc_substances.json", "parameters/pcsaft/sauer2014_hetero.json", None, IdentifierOption::Name) else { continue };
        let func = Arc::new(GcPcSaftFunctional::new(Arc::new(parameters)));
        let Ok(bulk) = State::new_nvt(&func, 350.0 * KELVIN, 1.0 * METER.powi::<P3>(), &(arr1(&n) * MOL)) else { continue };
        let l = 40.0 * ANGSTROM;
        for (gname, grid) in [("cartesian", Grid::Cartesian1(Axis::new_cartesian(64, l, None))), ("spherical", Grid::Spherical(Axis::new_spherical(64, l))), ("polar", Grid::Polar(Axis::new_polar(64, l)))] {
            let profile = DFTProfile::<Ix1, _>::new(grid, &bulk, None, None, Some(1));
            let volume = profile.volume();
            let moles = profile.moles();
            for i in 0..bulk.eos.components() {
                n_ok += 1;
                let ratio = (moles.get(i) / (bulk.partial_density.get(i) * volume)).into_value();
                if !((ratio - 1.0).abs() < 1e-10) {
                    n_bad += 1;
                    if n_bad <= 6 { println!("WITNESS uniform {names:?} profile on a {gname} grid: moles()[{i}] / (rho_{i} V) = {ratio}"); }
                }
            }
            let ratio = (profile.total_moles() / (bulk.density * volume)).into_value();
            if !((ratio - 1.0).abs() < 1e-10) {
                n_bad += 1;
                if n_bad <= 6 { println!("WITNESS uniform {names:?} profile on a {gname} grid: total_moles() / (rho V) = {ratio}"); }
            }
        }
    }
    println!("explored: {n_ok} component amounts, {n_bad} off");
}
