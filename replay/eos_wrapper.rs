// Witness search for C08.1 (integration test of feos-core): probe models whose every trait method returns a distinct
// tagged value; every method of the wrapper EquationOfState<I, R> must return exactly what the same-named method of
// the wrapped part returns.  Prints `WITNESS ...` for each method that does not.
use feos_core::{Components, EntropyScaling, EosResult, EquationOfState, IdealGas, Molarweight, ReferenceSystem, Residual, StateHD};
use ndarray::{arr1, Array1, ScalarOperand};
use num_dual::DualNum;
use quantity::*;
use std::sync::Arc;

struct R(usize);
struct I(usize);
impl Components for R { fn components(&self) -> usize { self.0 } fn subset(&self, l: &[usize]) -> Self { R(l.len() + 100) } }
impl Components for I { fn components(&self) -> usize { self.0 } fn subset(&self, l: &[usize]) -> Self { I(l.len() + 200) } }
impl Residual for R {
    fn compute_max_density(&self, m: &Array1<f64>) -> f64 { 11.0 + m[0] }
    fn residual_helmholtz_energy_contributions<D: DualNum<f64> + Copy + ScalarOperand>(&self, s: &StateHD<D>) -> Vec<(String, D)> {
        vec![("probe".into(), s.temperature * 13.0)]
    }
}
impl IdealGas for I {
    fn ln_lambda3<D: DualNum<f64> + Copy>(&self, t: D) -> Array1<D> { Array1::from_elem(self.0, t * 17.0) }
    fn ideal_gas_model(&self) -> String { "probe-ig".into() }
}
impl Molarweight for R { fn molar_weight(&self) -> MolarWeight<Array1<f64>> { arr1(&[19.0, 23.0]) * GRAM / MOL } }
impl EntropyScaling for R {
    fn viscosity_reference(&self, t: Temperature, _: Volume, _: &Moles<Array1<f64>>) -> EosResult<Viscosity> { Ok(t.to_reduced() * 29.0 * PASCAL * SECOND) }
    fn viscosity_correlation(&self, s: f64, x: &Array1<f64>) -> EosResult<f64> { Ok(31.0 * s + x[0]) }
    fn diffusion_reference(&self, t: Temperature, _: Volume, _: &Moles<Array1<f64>>) -> EosResult<Diffusivity> { Ok(t.to_reduced() * 37.0 * METER * METER / SECOND) }
    fn diffusion_correlation(&self, s: f64, x: &Array1<f64>) -> EosResult<f64> { Ok(41.0 * s + x[0]) }
    fn thermal_conductivity_reference(&self, t: Temperature, _: Volume, _: &Moles<Array1<f64>>) -> EosResult<ThermalConductivity> { Ok(t.to_reduced() * 43.0 * WATT / METER / KELVIN) }
    fn thermal_conductivity_correlation(&self, s: f64, x: &Array1<f64>) -> EosResult<f64> { Ok(47.0 * s + x[0]) }
}

#[test]
fn vx_witness_eos_wrapper() {
    let (r, i) = (Arc::new(R(2)), Arc::new(I(2)));
    let w = EquationOfState::new(i.clone(), r.clone());
    let m = arr1(&[0.25, 0.75]);
    let (t, v, n) = (300.0 * KELVIN, Volume::from_reduced(50.0), Moles::from_reduced(arr1(&[1.0, 3.0])));
    let x = arr1(&[0.3, 0.7]);
    let mut report = |name: &str, ok: bool| if !ok { println!("WITNESS wrapper method `{name}` differs from the same-named method of the wrapped model (probe models with tagged return values)"); };
    report("components", w.components() == r.components());
    report("compute_max_density", w.compute_max_density(&m) == r.compute_max_density(&m));
    report("molar_weight", w.molar_weight() == r.molar_weight());
    report("ideal_gas_model", w.ideal_gas_model() == i.ideal_gas_model());
    report("ln_lambda3", w.ln_lambda3(2.0f64) == i.ln_lambda3(2.0f64));
    let s = StateHD::new(2.0f64, 3.0, arr1(&[1.0, 3.0]));
    report("residual_helmholtz_energy_contributions", w.residual_helmholtz_energy_contributions(&s)[0].1 == r.residual_helmholtz_energy_contributions(&s)[0].1);
    report("viscosity_reference", w.viscosity_reference(t, v, &n).unwrap() == r.viscosity_reference(t, v, &n).unwrap());
    report("viscosity_correlation", w.viscosity_correlation(0.5, &x).unwrap() == r.viscosity_correlation(0.5, &x).unwrap());
    report("diffusion_reference", w.diffusion_reference(t, v, &n).unwrap() == r.diffusion_reference(t, v, &n).unwrap());
    report("diffusion_correlation", w.diffusion_correlation(0.5, &x).unwrap() == r.diffusion_correlation(0.5, &x).unwrap());
    report("thermal_conductivity_reference", w.thermal_conductivity_reference(t, v, &n).unwrap() == r.thermal_conductivity_reference(t, v, &n).unwrap());
    report("thermal_conductivity_correlation", w.thermal_conductivity_correlation(0.5, &x).unwrap() == r.thermal_conductivity_correlation(0.5, &x).unwrap());
    let sub = w.subset(&[1]);
    report("subset", sub.residual.0 == r.subset(&[1]).0 && sub.ideal_gas.0 == i.subset(&[1]).0);
}
