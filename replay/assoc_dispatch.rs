// Witness search for C13.4 (run by ./check against a scratch copy; integration test of `feos`, feature pcsaft).
// PC-SAFT mixtures whose association sites leave at most one A-B pair and at most one C site (a dimerising component with
// one C site alone, with an acceptor-only (B) partner, with a donor-only (A) partner, with a 2B partner): the second virial
// coefficient and its temperature derivative returned by the model must be the low-density limit of (Z-1)/rho computed
// from states of the same model.  Anything else is printed as `WITNESS ...`.
#![cfg(feature = "pcsaft")]
use feos::pcsaft::{PcSaft, PcSaftParameters, PcSaftRecord};
use feos_core::parameter::{Identifier, Parameter, PureRecord};
use feos_core::{Contributions, Residual, StateBuilder};
use ndarray::Array1;
use quantity::*;
use std::sync::Arc;
use typenum::P3;

fn rec(name: &str, m: f64, sigma: f64, eps: f64, kappa: f64, eps_ab: f64, na: Option<f64>, nb: Option<f64>, nc: Option<f64>) -> PureRecord<PcSaftRecord> {
    PureRecord::new(
        Identifier::new(None, Some(name), None, None, None, None),
        60.0,
        PcSaftRecord::new(m, sigma, eps, None, None, Some(kappa), Some(eps_ab), na, nb, nc, None, None, None),
    )
}

fn b_from_state(eos: &Arc<PcSaft>, t: Temperature, x: &Array1<f64>) -> Option<f64> {
    let rho = 1e-5 * MOL / METER.powi::<P3>();
    let state = StateBuilder::new(eos).temperature(t).partial_density(&(x.clone() * rho)).build().ok()?;
    Some((state.compressibility(Contributions::Residual) / rho).convert_into(METER.powi::<P3>() / MOL))
}

#[test]
fn vx_witness_assoc_dispatch() {
    let (mut n_ok, mut n_bad) = (0, 0);
    let acid = || rec("acid", 1.3403, 3.8582, 211.59, 0.07555, 3044.4, None, None, Some(1.0));
    let ether = || rec("ether", 2.2634, 3.2742, 232.99, 0.03, 1500.0, None, Some(1.0), None);
    let donor = || rec("donor", 2.0, 3.3, 220.0, 0.03, 1500.0, Some(1.0), None, None);
    let alcohol = || rec("alcohol", 2.4, 3.2, 200.0, 0.03, 2650.0, Some(1.0), Some(1.0), None);
    let systems: Vec<(&str, Vec<PureRecord<PcSaftRecord>>, Vec<f64>)> = vec![
        ("one C site alone", vec![acid()], vec![1.0]),
        ("one C site + acceptor-only (B) component", vec![acid(), ether()], vec![0.4, 0.6]),
        ("acceptor-only (B) component + one C site", vec![ether(), acid()], vec![0.7, 0.3]),
        ("one C site + donor-only (A) component", vec![acid(), donor()], vec![0.5, 0.5]),
        ("one C site + 2B component", vec![acid(), alcohol()], vec![0.4, 0.6]),
        ("2B component alone", vec![alcohol()], vec![1.0]),
    ];
    for (what, records, x) in systems {
        let Ok(params) = PcSaftParameters::from_records(records, None) else { continue };
        let eos = Arc::new(PcSaft::new(Arc::new(params)));
        let x = Array1::from_vec(x);
        let moles = x.clone() * MOL;
        for t in [300.0, 350.0, 450.0] {
            let t = t * KELVIN;
            let h = 1e-2 * KELVIN;
            let (Ok(b), Ok(db)) = (eos.second_virial_coefficient(t, Some(&moles)), eos.second_virial_coefficient_temperature_derivative(t, Some(&moles))) else { continue };
            let b = b.convert_into(METER.powi::<P3>() / MOL);
            let db = db.convert_into(METER.powi::<P3>() / MOL / KELVIN);
            let (Some(bl), Some(bp), Some(bm)) = (b_from_state(&eos, t, &x), b_from_state(&eos, t + h, &x), b_from_state(&eos, t - h, &x)) else { continue };
            let dbl = (bp - bm) / (2.0 * h.convert_into(KELVIN));
            n_ok += 1;
            let close = |u: f64, v: f64, tol: f64| u.is_finite() && (u - v).abs() <= tol * v.abs();
            if !(close(b, bl, 1e-4) && close(db, dbl, 1e-3)) {
                n_bad += 1;
                if n_bad <= 8 { println!("WITNESS PC-SAFT, {what}, x={x}, T={t}: B = {b:.6e} but lim (Z-1)/rho = {bl:.6e} m^3/mol; dB/dT = {db:.6e} but numerically from states {dbl:.6e} m^3/mol/K"); }
            }
        }
    }
    println!("explored: {n_ok} (system, temperature) pairs, {n_bad} off");
}
