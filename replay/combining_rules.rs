// Witness search for C09.4 (run by ./check against a scratch copy; integration test of `feos`, features saftvrmie + pcsaft).
// SAFT-VR Mie (hand-made records with different sigma, epsilon and - unusually - different repulsive AND attractive
// exponents) and PC-SAFT (test_parameters.json) binary mixtures built in both component orders: the pair-parameter
// matrices must be symmetric and the residual Helmholtz energy, pressure and (permuted) chemical potentials of the
// relabelled mixture must be the same; anything else is printed as `WITNESS ...`.
#![cfg(all(feature = "saftvrmie", feature = "pcsaft"))]
use feos::pcsaft::{PcSaft, PcSaftParameters};
use feos::saftvrmie::{SaftVRMie, SaftVRMieParameters, SaftVRMieRecord};
use feos_core::parameter::{Identifier, IdentifierOption, Parameter, PureRecord};
use feos_core::{Contributions, Residual, State};
use ndarray::{arr1, Array2};
use quantity::*;
use std::sync::Arc;
use typenum::P3;

fn sym(name: &str, m: &Array2<f64>, n_bad: &mut usize) {
    for i in 0..m.nrows() { for j in 0..i {
        if !((m[[i, j]] - m[[j, i]]).abs() <= 1e-14 * m[[i, j]].abs()) {
            *n_bad += 1;
            if *n_bad <= 6 { println!("WITNESS pair parameter {name}[{i},{j}] = {} but {name}[{j},{i}] = {}", m[[i, j]], m[[j, i]]); }
        }
    } }
}
fn relabel<E: Residual>(what: &str, ab: &Arc<E>, ba: &Arc<E>, n_ok: &mut usize, n_bad: &mut usize) {
    for (t, v) in [(250.0, 2.0e-4), (320.0, 1.0e-3), (200.0, 1.2e-4)] {
        let (t, v) = (t * KELVIN, v * METER.powi::<P3>());
        let (Ok(s1), Ok(s2)) = (State::new_nvt(ab, t, v, &(arr1(&[1.0, 2.0]) * MOL)), State::new_nvt(ba, t, v, &(arr1(&[2.0, 1.0]) * MOL))) else { continue };
        *n_ok += 1;
        let (a1, a2) = ((s1.residual_helmholtz_energy() / (RGAS * t * MOL)).into_value(), (s2.residual_helmholtz_energy() / (RGAS * t * MOL)).into_value());
        let (p1, p2) = (s1.pressure(Contributions::Residual), s2.pressure(Contributions::Residual));
        let (m1, m2) = (s1.residual_chemical_potential(), s2.residual_chemical_potential());
        let dmu = ((m1.get(0) - m2.get(1)) / (RGAS * t)).into_value().abs().max(((m1.get(1) - m2.get(0)) / (RGAS * t)).into_value().abs());
        if !((a1 - a2).abs() <= 1e-10 * a1.abs()) || !(((p1 - p2) / p1).into_value().abs() <= 1e-10) || !(dmu <= 1e-9) {
            *n_bad += 1;
            if *n_bad <= 6 { println!("WITNESS {what}, T={t}, V={v}: n=[1,2] gives A_res/RT={a1} mol, p_res={p1}; the relabelled mixture with n=[2,1] gives {a2} mol, {p2}; max |mu_i - mu'_pi(i)|/RT = {dmu:e}"); }
        }
    }
}

#[test]
fn vx_witness_combining_rules() {
    let (mut n_ok, mut n_bad) = (0, 0);
    let rec = |name: &str, mw: f64, m: f64, s: f64, e: f64, lr: f64, la: f64| PureRecord::new(Identifier::new(None, Some(name), None, None, None, None), mw, SaftVRMieRecord::new_simple(m, s, e, lr, la));
    let (a, b) = (rec("methane", 16.031, 1.0, 3.7412, 153.36, 12.65, 6.0), rec("carbon dioxide", 43.99, 1.5, 3.1916, 231.88, 27.557, 5.1646));
    if let (Ok(pab), Ok(pba)) = (SaftVRMieParameters::from_records(vec![a.clone(), b.clone()], None), SaftVRMieParameters::from_records(vec![b, a], None)) {
        for (n, m) in [("sigma_ij", &pab.sigma_ij), ("epsilon_k_ij", &pab.epsilon_k_ij), ("lr_ij", &pab.lr_ij), ("la_ij", &pab.la_ij), ("c_ij", &pab.c_ij), ("alpha_ij", &pab.alpha_ij)] { n_ok += 1; sym(&format!("SAFT-VR Mie {n}"), m, &mut n_bad); }
        relabel("SAFT-VR Mie methane / carbon dioxide", &Arc::new(SaftVRMie::new(Arc::new(pab))), &Arc::new(SaftVRMie::new(Arc::new(pba))), &mut n_ok, &mut n_bad);
    }
    if let (Ok(pab), Ok(pba)) = (
        PcSaftParameters::from_json(vec!["methane", "hexane"], "tests/pcsaft/test_parameters.json", None, IdentifierOption::Name),
        PcSaftParameters::from_json(vec!["hexane", "methane"], "tests/pcsaft/test_parameters.json", None, IdentifierOption::Name),
    ) {
        for (n, m) in [("sigma_ij", &pab.sigma_ij), ("e_k_ij", &pab.e_k_ij), ("epsilon_k_ij", &pab.epsilon_k_ij)] { n_ok += 1; sym(&format!("PC-SAFT {n}"), m, &mut n_bad); }
        relabel("PC-SAFT methane / hexane", &Arc::new(PcSaft::new(Arc::new(pab))), &Arc::new(PcSaft::new(Arc::new(pba))), &mut n_ok, &mut n_bad);
    }
    println!("explored: {n_ok} matrices and relabelled states, {n_bad} off");
}
