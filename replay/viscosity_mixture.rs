// Witness search for C20.5 (run by ./check against a scratch copy; integration test of `feos`, --features pcsaft).
// PC-SAFT entropy-scaling viscosity (parameters/pcsaft/loetgeringlin2018.json): for pairs of substances, temperatures
// and gas- and liquid-like volumes, a binary model with amounts [N, 0] and [0, N] must reproduce the viscosity
// reference (and the viscosity) of the pure model of the present component, positive and finite; anything else is
// printed as `WITNESS ...`.
use feos::pcsaft::{PcSaft, PcSaftParameters};
use feos_core::parameter::{IdentifierOption, Parameter};
use feos_core::State;
use ndarray::arr1;
use quantity::*;
use std::sync::Arc;
use typenum::P3;

const FILE: &str = "parameters/pcsaft/loetgeringlin2018.json";
fn eos(names: Vec<&str>) -> Option<Arc<PcSaft>> {
    PcSaftParameters::from_json(names, FILE, None, IdentifierOption::Name).ok().map(|p| Arc::new(PcSaft::new(Arc::new(p))))
}

#[test]
fn vx_witness_viscosity_mixture() {
    let (mut n_ok, mut n_bad) = (0, 0);
    let unit = MILLI * PASCAL * SECOND;
    for (a, b) in [("propane", "hexane"), ("methane", "butane"), ("hexane", "propane")] {
        let (Some(pa), Some(pb), Some(mix)) = (eos(vec![a]), eos(vec![b]), eos(vec![a, b])) else { continue };
        for t in [250.0, 300.0, 400.0] {
            for v in [2.0e-2, 2.0e-4] {
                let (t, v) = (t * KELVIN, v * METER.powi::<P3>());
                for first in [true, false] {
                    let pure = if first { &pa } else { &pb };
                    let n_mix = if first { arr1(&[2.0, 0.0]) } else { arr1(&[0.0, 2.0]) };
                    let (Ok(sp), Ok(sm)) = (State::new_nvt(pure, t, v, &(arr1(&[2.0]) * MOL)), State::new_nvt(&mix, t, v, &(n_mix * MOL))) else { continue };
                    let (Ok(rp), Ok(rm)) = (sp.viscosity_reference(), sm.viscosity_reference()) else { continue };
                    let (rp, rm) = (rp.convert_to(unit), rm.convert_to(unit));
                    n_ok += 1;
                    let mut off = !(rm.is_finite() && rm > 0.0) || !(((rm - rp) / rp).abs() < 1e-10);
                    let mut detail = format!("reference: pure {rp}, mixture {rm}");
                    if let (Ok(ep), Ok(em)) = (sp.viscosity(), sm.viscosity()) {
                        let (ep, em) = (ep.convert_to(unit), em.convert_to(unit));
                        off = off || !(em.is_finite() && em > 0.0) || !(((em - ep) / ep).abs() < 1e-8);
                        detail += &format!("; viscosity: pure {ep}, mixture {em}");
                    }
                    if off {
                        n_bad += 1;
                        if n_bad <= 6 { println!("WITNESS viscosity of {a}/{b} with amounts {} at T={t}, V={v} differs from the pure fluid: {detail} (mPas)", if first { "[N, 0]" } else { "[0, N]" }); }
                    }
                }
            }
        }
    }
    println!("explored: {n_ok} states with a vanishing component, {n_bad} off");
}
