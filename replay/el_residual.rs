// Witness search for C18.2 (run by ./check against a scratch copy; integration test of `feos`, --features "dft pcsaft").
// Slit pores (PC-SAFT methane, LJ 9-3 walls) initialised with user-supplied densities that are NOT negligible inside the
// walls, where the external potential is overwhelming and the residual array is masked: the reported norm of the
// Euler-Lagrange residual is defined on (density - rho_projected) and must therefore (a) be the same number whether the
// residual ARRAY is asked for with or without the logarithm, and (b) not be smaller than the root mean square of the
// returned (masked) non-logarithmic residual array; anything else is printed as `WITNESS ...`.
#![cfg(all(feature = "dft", feature = "pcsaft"))]
use feos::pcsaft::{PcSaftFunctional, PcSaftParameters};
use feos_core::parameter::{IdentifierOption, Parameter};
use feos_core::StateBuilder;
use feos_dft::adsorption::{ExternalPotential, Pore1D, PoreSpecification};
use feos_dft::Geometry;
use quantity::*;
use std::sync::Arc;

#[test]
fn vx_witness_el_residual() {
    let params = Arc::new(PcSaftParameters::from_json(vec!["methane"], "tests/pcsaft/test_parameters.json", None, IdentifierOption::Name).unwrap());
    let func = Arc::new(PcSaftFunctional::new(params));
    let (mut n_ok, mut n_bad) = (0, 0);
    for (t, p) in [(300.0, 20.0), (250.0, 5.0)] {
        let Ok(bulk) = StateBuilder::new(&func).temperature(t * KELVIN).pressure(p * BAR).build() else { continue };
        for size in [20.0, 35.0] {
            let pore = Pore1D::new(Geometry::Cartesian, size * ANGSTROM, ExternalPotential::LJ93 { epsilon_k_ss: 10.0, sigma_ss: 3.0, rho_s: 0.08 }, Some(128), None);
            let Ok(reference) = pore.initialize(&bulk, None, None) else { continue };
            let shape = reference.profile.density.raw_dim();
            for rho0 in [0.5, 5.0, 15.0] {
                let rho0 = rho0 * KILO * MOL / (METER * METER * METER);
                let init = Density::from_shape_fn(shape, |_| rho0);
                let Ok(profile) = pore.initialize(&bulk, Some(&init), None) else { continue };
                let (Ok((res, res_bulk, norm)), Ok((_, _, norm_log))) = (profile.profile.residual(false), profile.profile.residual(true)) else { continue };
                n_ok += 1;
                let rms = ((res.mapv(|x| x * x).sum() + res_bulk.mapv(|x| x * x).sum()) / (res.len() + res_bulk.len()) as f64).sqrt();
                if !((norm - norm_log).abs() <= 1e-12 * norm_log.abs()) || !(norm >= rms * (1.0 - 1e-12)) {
                    n_bad += 1;
                    if n_bad <= 6 { println!("WITNESS pore {size} A, T={t} K, p={p} bar, uniform initial density {rho0}: residual norm {norm:e} (array without log), {norm_log:e} (array with log), rms of the returned masked residual {rms:e}"); }
                }
            }
        }
    }
    println!("explored: {n_ok} profiles with density inside the walls, {n_bad} off");
}
