// Witness search for C11.11 (run by ./check against a scratch copy; integration test of `feos-core`, --features rayon).
// Peng-Robinson propane: PhaseDiagram::par_pure for several chunk sizes and thread counts against the sequential
// PhaseDiagram::pure, for a grid on which every temperature converges and for a grid with non-converging low
// temperatures: same number of states, same temperatures in the same order, the critical point last; anything else is
// printed as `WITNESS ...`.
#![cfg(feature = "rayon")]
use feos_core::cubic::{PengRobinson, PengRobinsonParameters};
use feos_core::{PhaseDiagram, ReferenceSystem, SolverOptions};
use quantity::*;
use std::sync::Arc;

#[test]
fn vx_witness_par_diagram() {
    let eos = Arc::new(PengRobinson::new(Arc::new(PengRobinsonParameters::new_simple(&[369.8], &[41.9 * 1e5], &[0.15], &[15.0]).unwrap())));
    let (mut n_ok, mut n_bad) = (0, 0);
    for (tmin, npoints) in [(150.0, 41usize), (20.0, 41), (30.0, 25)] {
        let Ok(seq) = PhaseDiagram::pure(&eos, tmin * KELVIN, npoints, None, SolverOptions::default()) else { continue };
        for (chunksize, threads) in [(1usize, 1usize), (4, 2), (7, 3), (13, 2), (npoints, 4)] {
            let pool = rayon::ThreadPoolBuilder::new().num_threads(threads).build().unwrap();
            let Ok(par) = PhaseDiagram::par_pure(&eos, tmin * KELVIN, npoints, chunksize, pool, None, SolverOptions::default()) else { continue };
            n_ok += 1;
            let ts = |d: &PhaseDiagram<PengRobinson, 2>| -> Vec<f64> { d.states.iter().map(|s| s.vapor().temperature.to_reduced()).collect() };
            let (a, b) = (ts(&seq), ts(&par));
            let same = a.len() == b.len() && a.iter().zip(&b).all(|(x, y)| (x - y).abs() <= 1e-9 * x.abs());
            if !same {
                n_bad += 1;
                if n_bad <= 6 { println!("WITNESS par_pure(T_min={tmin} K, {npoints} points, chunk size {chunksize}, {threads} threads) returned {} states, pure returned {}; first temperatures {:?} vs {:?}", b.len(), a.len(), &b[..b.len().min(3)], &a[..a.len().min(3)]); }
            }
        }
    }
    println!("explored: {n_ok} parallel diagrams, {n_bad} off");
}
