// Witness search for C20.6 (run by ./check against a scratch copy; integration test of `feos`, --features estimator).
// Peng-Robinson propane (hand-made parameters): the LiquidDensity data set at compressed-liquid points and at points
// between the liquid spinodal and the model's vapor pressure must predict the mass density of
// State::new_npt(.., DensityInitialization::Liquid) at the same (T, p); the EquilibriumLiquidDensity data set the mass
// density of the liquid phase of PhaseEquilibrium::pure at the same T (NaN where that fails); anything else is printed as
// `WITNESS ...`.
#![cfg(feature = "estimator")]
use feos::estimator::{DataSet, EquilibriumLiquidDensity, LiquidDensity};
use feos_core::cubic::{PengRobinson, PengRobinsonParameters};
use feos_core::{Contributions, DensityInitialization, PhaseEquilibrium, State};
use ndarray::{arr1, Array1};
use quantity::*;
use std::sync::Arc;
use typenum::P3;

#[test]
fn vx_witness_dataset_predict() {
    let eos = Arc::new(PengRobinson::new(Arc::new(PengRobinsonParameters::new_simple(&[369.8], &[41.9e5], &[0.15], &[44.0962]).unwrap())));
    let unit = KILOGRAM / METER.powi::<P3>();
    let moles = arr1(&[1.0]) * MOL;
    let (mut n_ok, mut n_bad) = (0, 0);
    let mut ts = vec![];
    let mut ps = vec![];
    for t in [250.0, 300.0, 340.0] {
        let Ok(vle) = PhaseEquilibrium::pure(&eos, t * KELVIN, None, Default::default()) else { continue };
        let p_sat = vle.vapor().pressure(Contributions::Total);
        for f in [3.0, 1.5, 0.95, 0.9] { ts.push(t * KELVIN); ps.push(p_sat * f); }
    }
    let n = ts.len();
    let temperature = Temperature::from_shape_fn(n, |i| ts[i]);
    let pressure = Pressure::from_shape_fn(n, |i| ps[i]);
    let data = LiquidDensity::new(MassDensity::from_shape_fn(n, |_| 500.0 * unit), temperature, pressure);
    if let Ok(prediction) = DataSet::<PengRobinson>::predict(&data, &eos) {
        let prediction: Array1<f64> = prediction;
        for i in 0..n {
            let want = match State::new_npt(&eos, ts[i], ps[i], &moles, DensityInitialization::Liquid) { Ok(s) => (s.mass_density() / unit).into_value(), Err(_) => f64::NAN };
            n_ok += 1;
            let same = (want.is_nan() && prediction[i].is_nan()) || ((prediction[i] - want) / want).abs() < 1e-12;
            if !same {
                n_bad += 1;
                if n_bad <= 6 { println!("WITNESS LiquidDensity::predict(PR propane, T={}, p={}) = {} kg/m3, State::new_npt(.., Liquid).mass_density() = {want} kg/m3", ts[i], ps[i], prediction[i]); }
            }
        }
    }
    let t_eq = [200.0, 250.0, 300.0, 340.0, 365.0, 380.0];
    let data = EquilibriumLiquidDensity::new(MassDensity::from_shape_fn(t_eq.len(), |_| 500.0 * unit), Temperature::from_shape_fn(t_eq.len(), |i| t_eq[i] * KELVIN), None);
    if let Ok(prediction) = DataSet::<PengRobinson>::predict(&data, &eos) {
        let prediction: Array1<f64> = prediction;
        for (i, t) in t_eq.iter().enumerate() {
            let want = match PhaseEquilibrium::pure(&eos, *t * KELVIN, None, Default::default()) { Ok(v) => (v.liquid().mass_density() / unit).into_value(), Err(_) => f64::NAN };
            n_ok += 1;
            let same = (want.is_nan() && prediction[i].is_nan()) || ((prediction[i] - want) / want).abs() < 1e-12;
            if !same {
                n_bad += 1;
                if n_bad <= 6 { println!("WITNESS EquilibriumLiquidDensity::predict(PR propane, T={t} K) = {} kg/m3, PhaseEquilibrium::pure(..).liquid().mass_density() = {want} kg/m3", prediction[i]); }
            }
        }
    }
    println!("explored: {n_ok} data points, {n_bad} off");
}
