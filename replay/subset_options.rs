// Witness search for C09.1 (run by ./check against a scratch copy of the working tree, as an
// integration test of the `feos` crate with --features all_models).
// For each model with a shipped parameter file: build with a non-default option
// (max_eta = 0.4), take subset(&[0]) and compare an option-dependent observable
// (compute_max_density) with the pure model built directly with the same options.
// Prints `WITNESS ...` for every model whose sub-model differs.
use feos_core::parameter::{IdentifierOption, Parameter};
use feos_core::{Components, Residual};
use ndarray::arr1;
use std::sync::Arc;

fn report(model: &str, sub: f64, direct: f64) {
    if (sub - direct).abs() > 1e-12 * direct.abs() {
        println!("WITNESS model={model} input=\"max_eta=0.4, subset(&[0]), compute_max_density([1.0])\" subset={sub} direct={direct} ratio={}", sub / direct);
    } else {
        println!("ok model={model} subset={sub} direct={direct}");
    }
}

#[test]
fn subset_keeps_options() {
    let m = arr1(&[1.0]);
    {
        use feos::saftvrmie::*;
        let p = Arc::new(SaftVRMieParameters::from_json(vec!["methane", "ethane"], "parameters/saftvrmie/lafitte2013.json", None, IdentifierOption::Name).unwrap());
        let mut o = SaftVRMieOptions::default();
        o.max_eta = 0.4;
        let sub = SaftVRMie::with_options(p.clone(), o).subset(&[0]);
        let direct = SaftVRMie::with_options(Arc::new(p.subset(&[0])), o);
        report("SaftVRMie", sub.compute_max_density(&m), direct.compute_max_density(&m));
    }
    {
        use feos::pcsaft::*;
        let p = Arc::new(PcSaftParameters::from_json(vec!["propane", "butane"], "tests/pcsaft/test_parameters.json", None, IdentifierOption::Name).unwrap());
        let mut o = PcSaftOptions::default();
        o.max_eta = 0.4;
        let sub = PcSaft::with_options(p.clone(), o).subset(&[0]);
        let direct = PcSaft::with_options(Arc::new(p.subset(&[0])), o);
        report("PcSaft", sub.compute_max_density(&m), direct.compute_max_density(&m));
        let sub = PcSaftFunctional::with_options(p.clone(), feos::hard_sphere::FMTVersion::KierlikRosinberg, o).subset(&[0]);
        let direct = PcSaftFunctional::with_options(Arc::new(p.subset(&[0])), feos::hard_sphere::FMTVersion::KierlikRosinberg, o);
        report("PcSaftFunctional", sub.compute_max_density(&m), direct.compute_max_density(&m));
    }
    {
        use feos::saftvrqmie::*;
        let p = Arc::new(SaftVRQMieParameters::from_json(vec!["hydrogen", "neon"], "parameters/saftvrqmie/aasen2019.json", None, IdentifierOption::Name).unwrap());
        let mut o = SaftVRQMieOptions::default();
        o.max_eta = 0.4;
        let sub = SaftVRQMie::with_options(p.clone(), o).subset(&[0]);
        let direct = SaftVRQMie::with_options(Arc::new(p.subset(&[0])), o);
        report("SaftVRQMie", sub.compute_max_density(&m), direct.compute_max_density(&m));
    }
}
