// Witness search for C16.2 (run by ./check against a scratch copy; integration test of `feos`, --features "pcsaft dft").
// For every grid type - Cartesian 1-3D, spherical, polar, cylindrical, periodic 2D/3D with right and with skewed
// angles - a profile initialised to the bulk density: the integral of one with the grid's own weights must equal
// `volume()` and the amounts must equal rho * V.  A relative deviation above 1e-10 is printed as `WITNESS ...`.
#![cfg(feature = "dft")]
use feos::hard_sphere::FMTVersion;
use feos::pcsaft::{PcSaftFunctional, PcSaftParameters};
use feos_core::parameter::{IdentifierOption, Parameter};
use feos_core::{ReferenceSystem, State};
use feos_dft::{Axis, DFTProfile, Grid};
use ndarray::{arr1, Array, Dimension, RemoveAxis};
use quantity::*;
use std::sync::Arc;

fn probe<D>(name: &str, grid: Grid, bulk: &State<PcSaftFunctional>)
where
    D: Dimension + RemoveAxis + 'static,
    D::Larger: Dimension<Smaller = D>,
    D::Smaller: Dimension<Larger = D>,
    <D::Larger as Dimension>::Larger: Dimension<Smaller = D::Larger>,
{
    let shape: Vec<usize> = grid.axes().iter().map(|ax| ax.grid.len()).collect();
    let profile: DFTProfile<D, _> = DFTProfile::new(grid, bulk, None, None, None);
    let one: Array<f64, D> = Array::ones(shape).into_dimensionality().unwrap();
    let int_one = profile.integrate(&Dimensionless::from_reduced(one)).to_reduced();
    let volume = profile.volume().to_reduced();
    if !(((int_one - volume) / volume).abs() < 1e-10) {
        println!("WITNESS grid=\"{name}\": integral of one with the grid's weights = {int_one:e} but volume() = {volume:e}");
    }
    let n = profile.total_moles().to_reduced();
    let rho_v = bulk.density.to_reduced() * volume;
    if !(((n - rho_v) / rho_v).abs() < 1e-10) {
        println!("WITNESS grid=\"{name}\": uniform profile holds N = {n:e} but rho * V = {rho_v:e}");
    }
}

#[test]
fn vx_witness_grid_integral() {
    let params = Arc::new(PcSaftParameters::from_json(vec!["propane", "butane"], "tests/pcsaft/test_parameters.json", None, IdentifierOption::Name).unwrap());
    let func = Arc::new(PcSaftFunctional::new_full(params, FMTVersion::WhiteBear));
    let bulk = State::new_nvt(&func, 300.0 * KELVIN, 1.0 * METER * METER * METER, &(arr1(&[3000.0, 7000.0]) * MOL)).unwrap();
    let l = 40.0 * ANGSTROM;
    let x = Axis::new_cartesian(16, 20.0 * ANGSTROM, None);
    let y = Axis::new_cartesian(8, 15.0 * ANGSTROM, None);
    let z = Axis::new_cartesian(12, 18.0 * ANGSTROM, None);
    probe::<ndarray::Ix1>("cartesian 1D", Grid::Cartesian1(Axis::new_cartesian(64, l, None)), &bulk);
    probe::<ndarray::Ix1>("spherical", Grid::Spherical(Axis::new_spherical(64, l)), &bulk);
    probe::<ndarray::Ix1>("polar", Grid::Polar(Axis::new_polar(64, l)), &bulk);
    probe::<ndarray::Ix2>("cartesian 2D", Grid::Cartesian2(x.clone(), y.clone()), &bulk);
    probe::<ndarray::Ix2>("cylindrical", Grid::Cylindrical { r: Axis::new_polar(16, 20.0 * ANGSTROM), z: y.clone() }, &bulk);
    probe::<ndarray::Ix2>("periodic 2D, 90 degrees", Grid::Periodical2(x.clone(), y.clone(), 90.0 * DEGREES), &bulk);
    probe::<ndarray::Ix2>("periodic 2D, 60 degrees", Grid::Periodical2(x.clone(), y.clone(), 60.0 * DEGREES), &bulk);
    probe::<ndarray::Ix3>("cartesian 3D", Grid::Cartesian3(x.clone(), y.clone(), z.clone()), &bulk);
    probe::<ndarray::Ix3>("periodic 3D, orthorhombic", Grid::Periodical3(x.clone(), y.clone(), z.clone(), [90.0 * DEGREES; 3]), &bulk);
    probe::<ndarray::Ix3>("periodic 3D, triclinic (80, 70, 60 degrees)", Grid::Periodical3(x, y, z, [80.0 * DEGREES, 70.0 * DEGREES, 60.0 * DEGREES]), &bulk);
    println!("explored 10 grids");
}
