// Witness search for C05.5 (run by ./check against a scratch copy; integration test of `feos-core`).
// Peng-Robinson mixtures of ethane, propane, butane, hexane (hand-made parameters) at 0.65 of the lower critical
// temperature and at 0.8 of it, compositions 0.05 .. 0.95: bubble_point and dew_point at given temperature without any
// initial value (so that the ideal-gas and the spinodal start are both exercised) and at given pressure with an initial
// temperature.  An Ok result must carry the specified composition in the phase the call names (liquid of a bubble point,
// vapor of a dew point) and the specified temperature / pressure; anything else is printed as `WITNESS ...`.
use feos_core::cubic::{PengRobinson, PengRobinsonParameters};
use feos_core::{Contributions, PhaseEquilibrium};
use ndarray::arr1;
use quantity::*;
use std::sync::Arc;

type Comp = (&'static str, f64, f64, f64, f64);
const COMPS: [Comp; 4] = [("ethane", 305.4, 48.2e5, 0.10, 30.0), ("propane", 369.8, 41.9e5, 0.15, 44.0), ("butane", 425.1, 37.96e5, 0.2, 58.0), ("hexane", 507.6, 30.25e5, 0.301, 86.0)];

#[test]
fn vx_witness_bubble_dew_route() {
    let (mut n_ok, mut n_bad) = (0, 0);
    for (ia, a) in COMPS.iter().enumerate() {
        for b in COMPS.iter().skip(ia + 1) {
            let Ok(params) = PengRobinsonParameters::new_simple(&[a.1, b.1], &[a.2, b.2], &[a.3, b.3], &[a.4, b.4]) else { continue };
            let eos = Arc::new(PengRobinson::new(Arc::new(params)));
            for f in [0.65, 0.8] {
                let t = f * a.1.min(b.1) * KELVIN;
                for y1 in [0.05, 0.2, 0.5, 0.8, 0.95] {
                    let z = arr1(&[y1, 1.0 - y1]);
                    for bubble in [true, false] {
                        let what = if bubble { "bubble_point" } else { "dew_point" };
                        let r = if bubble { PhaseEquilibrium::bubble_point(&eos, t, &z, None, None, Default::default()) } else { PhaseEquilibrium::dew_point(&eos, t, &z, None, None, Default::default()) };
                        let Ok(vle) = r else { continue };
                        n_ok += 1;
                        let spec_phase = if bubble { vle.liquid() } else { vle.vapor() };
                        let dev = (&spec_phase.molefracs - &z).mapv(f64::abs).iter().cloned().fold(0.0, f64::max);
                        if !(dev < 1e-10) || spec_phase.temperature != t {
                            n_bad += 1;
                            if n_bad <= 6 { println!("WITNESS {what}({}/{}, T={t}, spec={z}) returned Ok: the {} has composition {} at {} (other phase {}), p={}", a.0, b.0, if bubble { "liquid" } else { "vapor" }, spec_phase.molefracs, spec_phase.temperature, if bubble { &vle.vapor().molefracs } else { &vle.liquid().molefracs }, spec_phase.pressure(Contributions::Total)); }
                            continue;
                        }
                        // the same point at given pressure, started from a temperature nearby
                        let p = spec_phase.pressure(Contributions::Total);
                        let r = if bubble { PhaseEquilibrium::bubble_point(&eos, p, &z, Some(t * 1.01), None, Default::default()) } else { PhaseEquilibrium::dew_point(&eos, p, &z, Some(t * 1.01), None, Default::default()) };
                        let Ok(vle) = r else { continue };
                        n_ok += 1;
                        let spec_phase = if bubble { vle.liquid() } else { vle.vapor() };
                        let dev = (&spec_phase.molefracs - &z).mapv(f64::abs).iter().cloned().fold(0.0, f64::max);
                        let dp = ((spec_phase.pressure(Contributions::Total) - p) / p).into_value().abs();
                        if !(dev < 1e-10) || !(dp < 1e-6) {
                            n_bad += 1;
                            if n_bad <= 6 { println!("WITNESS {what}({}/{}, p={p}, spec={z}) returned Ok: the {} has composition {} and pressure {}", a.0, b.0, if bubble { "liquid" } else { "vapor" }, spec_phase.molefracs, spec_phase.pressure(Contributions::Total)); }
                        }
                    }
                }
            }
        }
    }
    println!("explored: {n_ok} bubble / dew points, {n_bad} off");
}
