// Witness search for C04.5 (run by ./check against a scratch copy; integration test of `feos-core`).
// Peng-Robinson propane and hexane (hand-made parameters): PhaseEquilibrium::pure at given temperature with initial states
// that are NOT equilibria - PhaseEquilibrium::new_npt guesses at the requested temperature and off-equilibrium pressures,
// equilibria of other temperatures, no initial state.  An Ok result must have both phases at the requested temperature,
// at one pressure and one chemical potential, the vapor less dense than the liquid, and must agree with the calculation
// without an initial state; anything else is printed as `WITNESS ...`.
use feos_core::cubic::{PengRobinson, PengRobinsonParameters};
use feos_core::{Contributions, PhaseEquilibrium};
use ndarray::arr1;
use quantity::*;
use std::sync::Arc;

#[test]
fn vx_witness_pure_route() {
    let (mut n_ok, mut n_bad) = (0, 0);
    for (name, tc, pc, om, mw) in [("propane", 369.8, 41.9e5, 0.15, 44.0962), ("hexane", 507.6, 30.25e5, 0.301, 86.0)] {
        let Ok(params) = PengRobinsonParameters::new_simple(&[tc], &[pc], &[om], &[mw]) else { continue };
        let eos = Arc::new(PengRobinson::new(Arc::new(params)));
        for f in [0.6, 0.75, 0.9] {
            let t = f * tc * KELVIN;
            let Ok(reference) = PhaseEquilibrium::pure(&eos, t, None, Default::default()) else { continue };
            let p_ref = reference.vapor().pressure(Contributions::Total);
            let mut inits: Vec<(String, PhaseEquilibrium<PengRobinson, 2>)> = vec![];
            for g in [0.5, 0.8, 1.3, 2.0] {
                if let Ok(i) = PhaseEquilibrium::new_npt(&eos, t, p_ref * g, &(arr1(&[1.0]) * MOL), &(arr1(&[1.0]) * MOL)) { inits.push((format!("new_npt guess at T and {g} p_sat"), i)); }
            }
            for dt in [0.95, 1.05] {
                if let Ok(i) = PhaseEquilibrium::pure(&eos, t * dt, None, Default::default()) { inits.push((format!("equilibrium at {dt} T"), i)); }
            }
            for (what, init) in &inits {
                let Ok(vle) = PhaseEquilibrium::pure(&eos, t, Some(init), Default::default()) else { continue };
                n_ok += 1;
                let (v, l) = (vle.vapor(), vle.liquid());
                let dp = ((v.pressure(Contributions::Total) - l.pressure(Contributions::Total)) / p_ref).into_value().abs();
                let dmu = ((v.residual_chemical_potential().get(0) - l.residual_chemical_potential().get(0)) / (RGAS * t)).into_value() + (v.density / l.density).into_value().ln();
                let dref = ((v.pressure(Contributions::Total) - p_ref) / p_ref).into_value().abs();
                if v.temperature != t || l.temperature != t || !(dp < 1e-7) || !(dmu.abs() < 1e-7) || !(dref < 1e-6) || !(v.density < l.density) {
                    n_bad += 1;
                    if n_bad <= 6 { println!("WITNESS PhaseEquilibrium::pure({name}, T={t}, initial state: {what}) returned Ok: T_v={}, T_l={}, |p_v-p_l|/p_sat={dp:e}, (mu_v-mu_l)/RT={dmu:e}, |p-p_sat|/p_sat={dref:e}", v.temperature, l.temperature); }
                }
            }
        }
    }
    println!("explored: {n_ok} calculations with an initial state, {n_bad} off");
}
