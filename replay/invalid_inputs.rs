// Witness search for C03.2b (run by ./check against a scratch copy; integration test of feos-core).
// Every constructor that builds its result through other constructors is called with non-finite or negative
// T, V, N, rho (Peng-Robinson propane / propane+butane); an `Ok` state is printed as `WITNESS ...`.
use feos_core::cubic::{PengRobinson, PengRobinsonParameters};
use feos_core::{DensityInitialization, ReferenceSystem, State};
use ndarray::arr1;
use quantity::*;
use std::sync::Arc;

fn models() -> (Arc<PengRobinson>, Arc<PengRobinson>) {
    let p1 = PengRobinsonParameters::new_simple(&[369.8], &[41.9 * 1e5], &[0.15], &[15.0]).unwrap();
    let p2 = PengRobinsonParameters::new_simple(&[369.8, 425.2], &[41.9 * 1e5, 37.9 * 1e5], &[0.15, 0.2], &[15.0, 20.0]).unwrap();
    (Arc::new(PengRobinson::new(Arc::new(p1))), Arc::new(PengRobinson::new(Arc::new(p2))))
}
const BAD: [f64; 5] = [-2.5, f64::NAN, f64::INFINITY, f64::NEG_INFINITY, -0.0];

#[test]
fn vx_witness_invalid_inputs() {
    let (pure, binary) = models();
    let x = arr1(&[0.25, 0.75]);
    let inits = [("none", DensityInitialization::None), ("vapor", DensityInitialization::Vapor), ("liquid", DensityInitialization::Liquid)];
    for v in BAD {
        if v == 0.0 { continue; }
        for (name, init) in inits {
            if let Ok(s) = State::new_npvx(&binary, 300.0 * KELVIN, 1.0 * BAR, Volume::from_reduced(v), &x, init) {
                println!("WITNESS new_npvx(T=300K, p=1bar, V_reduced={v}, x=[0.25,0.75], init={name}) returned Ok: V={} N={}", s.volume, s.moles);
            }
        }
        // rho = +inf gives V = +0, which is neither negative nor non-finite: not part of the statement
        if v != f64::INFINITY { if let Ok(s) = State::new_pure(&pure, 300.0 * KELVIN, Density::from_reduced(v)) {
            println!("WITNESS new_pure(T=300K, rho_reduced={v}) returned Ok: V={} N={}", s.volume, s.moles);
        } }
        if let Ok(s) = State::new_pure(&pure, Temperature::from_reduced(v), Density::from_reduced(1e-4)) {
            println!("WITNESS new_pure(T_reduced={v}, rho_reduced=1e-4) returned Ok: T={}", s.temperature);
        }
        let good = State::new_pure(&pure, 300.0 * KELVIN, Density::from_reduced(1e-4)).unwrap();
        if let Ok(s) = good.update_temperature(Temperature::from_reduced(v)) {
            println!("WITNESS update_temperature(T_reduced={v}) returned Ok: T={}", s.temperature);
        }
        for (name, init) in inits {
            let moles = Moles::from_reduced(arr1(&[v, 1.0]));
            if let Ok(s) = State::new_npt(&binary, 300.0 * KELVIN, 1.0 * BAR, &moles, init) {
                println!("WITNESS new_npt(T=300K, p=1bar, N_reduced=[{v},1], init={name}) returned Ok: N={}", s.moles);
            }
            let moles = Moles::from_reduced(arr1(&[1.0, 1.0]));
            if let Ok(s) = State::new_npt(&binary, Temperature::from_reduced(v), 1.0 * BAR, &moles, init) {
                println!("WITNESS new_npt(T_reduced={v}, p=1bar, init={name}) returned Ok: T={}", s.temperature);
            }
        }
    }
}
