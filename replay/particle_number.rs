// Witness search for C18.3 (run by ./check against a scratch copy; integration test of `feos`, features pcsaft + dft).
// Planar vapor-liquid interfaces of PC-SAFT propane solved with a specified number of particles: in total
// (`fix_equimolar_surface`, DFTSpecifications::TotalMoles) and per component (DFTSpecifications::Moles, taken from the
// initial profile).  Solving must succeed, the solved profile must contain the specified amount, and its surface tension
// must be that of the profile solved with the default (chemical potential) specification.  Anything else is printed as
// `WITNESS ...`.
#![cfg(all(feature = "pcsaft", feature = "dft"))]
use feos::pcsaft::{PcSaftFunctional, PcSaftParameters};
use feos_core::parameter::{IdentifierOption, Parameter};
use feos_core::{PhaseEquilibrium, State};
use feos_dft::interface::PlanarInterface;
use feos_dft::DFTSpecifications;
use quantity::*;
use std::sync::Arc;

#[test]
fn vx_witness_particle_number() {
    let (mut n_ok, mut n_bad) = (0, 0);
    let Ok(params) = PcSaftParameters::from_json(vec!["propane"], "tests/pcsaft/test_parameters.json", None, IdentifierOption::Name) else { return };
    let func = Arc::new(PcSaftFunctional::new(Arc::new(params)));
    let Ok(cp) = State::critical_point(&func, None, None, Default::default()) else { return };
    let tc = cp.temperature;
    for t in [200.0, 250.0, 300.0] {
        let t = t * KELVIN;
        let Ok(vle) = PhaseEquilibrium::pure(&func, t, None, Default::default()) else { continue };
        let (points, w) = (512, 100.0 * ANGSTROM);
        let Ok(reference) = PlanarInterface::from_tanh(&vle, points, w, tc, false).solve(None) else { continue };
        let Some(gamma_ref) = reference.surface_tension else { continue };
        for what in ["total number of particles (fix_equimolar_surface)", "number of particles of every component"] {
            let mut interface = PlanarInterface::from_tanh(&vle, points, w, tc, what.starts_with("total"));
            if !what.starts_with("total") {
                interface.profile.specification = DFTSpecifications::moles_from_profile(&interface.profile);
            }
            let n_spec = interface.profile.total_moles();
            n_ok += 1;
            match interface.solve(None) {
                Err(e) => {
                    n_bad += 1;
                    println!("WITNESS planar interface of PC-SAFT propane at {t} with the {what} specified: solving fails ({e}); with the default specification it succeeds");
                }
                Ok(solved) => {
                    let n = solved.profile.total_moles();
                    let dn = ((n - n_spec) / n_spec).into_value().abs();
                    let dg = solved.surface_tension.map(|g| ((g - gamma_ref) / gamma_ref).into_value().abs()).unwrap_or(f64::NAN);
                    if !(dn < 1e-8) || !(dg < 1e-5) {
                        n_bad += 1;
                        println!("WITNESS planar interface of PC-SAFT propane at {t} with the {what} specified ({n_spec}): the solved profile contains {n} (relative difference {dn:.3e}), surface tension off by {dg:.3e} (relative)");
                    }
                }
            }
        }
    }
    println!("explored: {n_ok} profiles with a particle-number specification, {n_bad} off");
}
