// Witness search for C05.3 (run by ./check against a scratch copy; integration test of `feos`, --features pcsaft).
// Bubble and dew points of PC-SAFT propane/butane over temperatures, specified compositions and initial guesses of
// the incipient phase (default, equimolar, skewed): an Ok result whose phases differ in ln f_i = ln(x_i phi_i) by
// more than 1e-7 (default outer tolerance 1e-10) for some component is printed as `WITNESS ...`.
use feos::pcsaft::{PcSaft, PcSaftParameters};
use feos_core::parameter::{IdentifierOption, Parameter};
use feos_core::{PhaseEquilibrium, State};
use ndarray::*;
use quantity::*;
use std::sync::Arc;

fn ln_f(state: &State<PcSaft>) -> Array1<f64> { state.ln_phi() + state.molefracs.mapv(f64::ln) }

#[test]
fn vx_witness_bubble_guess() {
    let eos = Arc::new(PcSaft::new(Arc::new(PcSaftParameters::from_json(vec!["propane", "butane"], "tests/pcsaft/test_parameters.json", None, IdentifierOption::Name).unwrap())));
    let guesses: [Option<Array1<f64>>; 4] = [None, Some(arr1(&[0.5, 0.5])), Some(arr1(&[0.8, 0.2])), Some(arr1(&[0.2, 0.8]))];
    let (mut n_ok, mut n_bad) = (0, 0);
    for it in 0..5 {
        let t = (260.0 + 10.0 * it as f64) * KELVIN;
        for ix in 1..10 {
            let x = arr1(&[0.1 * ix as f64, 1.0 - 0.1 * ix as f64]);
            for g in &guesses {
                for bubble in [true, false] {
                    let r = if bubble {
                        PhaseEquilibrium::bubble_point(&eos, t, &x, None, g.as_ref(), Default::default())
                    } else {
                        PhaseEquilibrium::dew_point(&eos, t, &x, None, g.as_ref(), Default::default())
                    };
                    if let Ok(vle) = r {
                        n_ok += 1;
                        let d = (ln_f(vle.vapor()) - ln_f(vle.liquid())).mapv(f64::abs);
                        let dmax = d.iter().cloned().fold(0.0, f64::max);
                        if !(dmax < 1e-7) {
                            n_bad += 1;
                            if n_bad <= 5 {
                                println!("WITNESS {}(propane/butane, T={t}, spec x={x}, guess={:?}) returned Ok with |ln f_v - ln f_l| = {d:e}: y={} x={}",
                                    if bubble { "bubble_point" } else { "dew_point" }, g.as_ref().map(|a| a.to_vec()), vle.vapor().molefracs, vle.liquid().molefracs);
                            }
                        }
                    }
                }
            }
        }
    }
    println!("explored: {n_ok} converged bubble/dew points, {n_bad} with unequal fugacities");
}

/// "the phases are not copies of each other": asymmetric mixtures at and above the mixture critical temperature, where
/// the incipient phase tends to collapse onto the specified one - an Ok result must still consist of two phases
#[test]
fn vx_witness_bubble_guess_copies() {
    let mut n_bad = 0;
    for (a, b) in [("methane", "hexane"), ("carbon dioxide", "hexane"), ("methane", "butane")] {
        let Ok(params) = PcSaftParameters::from_json(vec![a, b], "tests/pcsaft/test_parameters.json", None, IdentifierOption::Name) else { continue };
        let eos = Arc::new(PcSaft::new(Arc::new(params)));
        for it in 0..8 {
            let t = (300.0 + 20.0 * it as f64) * KELVIN;
            for x1 in [0.2, 0.5, 0.8] {
                let x = arr1(&[x1, 1.0 - x1]);
                for bubble in [true, false] {
                    let r = if bubble { PhaseEquilibrium::bubble_point(&eos, t, &x, None, None, Default::default()) } else { PhaseEquilibrium::dew_point(&eos, t, &x, None, None, Default::default()) };
                    if let Ok(vle) = r {
                        // the library's own criterion for copies (relative deviation of every partial density < 1e-5)
                        if PhaseEquilibrium::is_trivial_solution(vle.vapor(), vle.liquid()) {
                            n_bad += 1;
                            if n_bad <= 4 { println!("WITNESS {}({a}/{b}, T={t}, spec x={x}) returned Ok with two copies of one phase: rho_v={} rho_l={}", if bubble { "bubble_point" } else { "dew_point" }, vle.vapor().partial_density, vle.liquid().partial_density); }
                        }
                    }
                }
            }
        }
    }
    println!("copies found: {n_bad}");
}

/// C05.4 "a bubble (dew) point keeps the specified liquid (vapor) composition and the specified T": Peng-Robinson
/// methane / n-decane up to pressures where the methane-rich vapor is DENSER (mol/m3) than the liquid, plus PC-SAFT
/// propane/butane: the phase with the specified composition must come back as liquid() of a bubble point and as
/// vapor() of a dew point, at exactly the specified temperature
#[test]
fn vx_witness_bubble_guess_spec() {
    use feos_core::cubic::{PengRobinson, PengRobinsonParameters};
    let pr = Arc::new(PengRobinson::new(Arc::new(PengRobinsonParameters::new_simple(&[190.56, 617.7], &[45.99e5, 21.1e5], &[0.011, 0.489], &[16.043, 142.28]).unwrap())));
    let (mut n_ok, mut n_bad) = (0, 0);
    for t in [300.0, 350.0] {
        let t = t * KELVIN;
        for ix in 1..=15 {
            let x1 = 0.05 * ix as f64;
            let x = arr1(&[x1, 1.0 - x1]);
            if let Ok(vle) = PhaseEquilibrium::bubble_point(&pr, t, &x, None, None, Default::default()) {
                n_ok += 1;
                let d = (&vle.liquid().molefracs - &x).mapv(f64::abs).sum();
                if !(d < 1e-10) || vle.liquid().temperature != t {
                    n_bad += 1;
                    if n_bad <= 4 { println!("WITNESS bubble_point(PR methane/decane, T={t}, liquid x={x}) returned liquid() with x={} at T={} (vapor y={}, rho_v={}, rho_l={})", vle.liquid().molefracs, vle.liquid().temperature, vle.vapor().molefracs, vle.vapor().density, vle.liquid().density); }
                }
            }
        }
        for y1 in [0.9, 0.95, 0.99, 0.999] {
            let y = arr1(&[y1, 1.0 - y1]);
            for p0 in [None, Some(300.0 * BAR)] {
                if let Ok(vle) = PhaseEquilibrium::dew_point(&pr, t, &y, p0, None, Default::default()) {
                    n_ok += 1;
                    let d = (&vle.vapor().molefracs - &y).mapv(f64::abs).sum();
                    if !(d < 1e-10) || vle.vapor().temperature != t {
                        n_bad += 1;
                        if n_bad <= 4 { println!("WITNESS dew_point(PR methane/decane, T={t}, vapor y={y}, p0={p0:?}) returned vapor() with y={} at T={}", vle.vapor().molefracs, vle.vapor().temperature); }
                    }
                }
            }
        }
    }
    println!("explored: {n_ok} bubble/dew points with specified composition, {n_bad} not echoed");
}

/// "Ok only when the OUTER convergence test passed": wide-boiling methane/butane bubble and dew points with non-default
/// solver options - a coarse tolerance for the inner T/p loop with the default outer tolerance, and a coarse outer
/// tolerance with a fine inner one.  With the default outer tolerance (1e-10) the phases of an Ok result must agree in
/// ln f_i to 1e-7 whatever the inner tolerance is.
#[test]
fn vx_witness_bubble_guess_options() {
    use feos_core::SolverOptions;
    let (mut n_ok, mut n_bad) = (0, 0);
    let Ok(params) = PcSaftParameters::from_json(vec!["methane", "butane"], "tests/pcsaft/test_parameters.json", None, IdentifierOption::Name) else { println!("explored: 0"); return };
    let eos = Arc::new(PcSaft::new(Arc::new(params)));
    for t in [250.0, 300.0, 350.0] {
        for x1 in [0.1, 0.3, 0.5] {
            let x = arr1(&[x1, 1.0 - x1]);
            for inner_tol in [1e-2, 1e-4] {
                let options = (SolverOptions::new().tol(inner_tol), SolverOptions::default());
                for bubble in [true, false] {
                    let r = if bubble { PhaseEquilibrium::bubble_point(&eos, t * KELVIN, &x, None, None, options) } else { PhaseEquilibrium::dew_point(&eos, t * KELVIN, &x, None, None, options) };
                    let Ok(vle) = r else { continue };
                    n_ok += 1;
                    let d = (ln_f(vle.vapor()) - ln_f(vle.liquid())).mapv(f64::abs);
                    let dmax = d.iter().cloned().fold(0.0, f64::max);
                    if !(dmax < 1e-7) {
                        n_bad += 1;
                        if n_bad <= 5 { println!("WITNESS {}(methane/butane, T={t} K, spec x={x}, inner tolerance {inner_tol:e}, default outer tolerance) returned Ok with |ln f_v - ln f_l| = {d:e}", if bubble { "bubble_point" } else { "dew_point" }); }
                    }
                }
            }
        }
    }
    println!("explored: {n_ok} bubble/dew points with non-default inner tolerance, {n_bad} with unequal fugacities");
}
