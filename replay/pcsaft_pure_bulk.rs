// Witness search for C08.6 (run by ./check against a scratch copy; integration test of `feos`, features pcsaft + dft).
// PC-SAFT as equation of state and as Helmholtz energy functional for ONE component (default FMT version, so that the
// pure-component contributions of src/pcsaft/dft/pure_saft_functional.rs are used) on hand-made non-associating records -
// non-polar, dipolar and quadrupolar, with segment numbers below and above 2: the residual Helmholtz energy of the same bulk
// state must be the same number for both; anything else is printed as `WITNESS ...`.
#![cfg(all(feature = "pcsaft", feature = "dft"))]
use feos::pcsaft::{PcSaft, PcSaftFunctional, PcSaftParameters, PcSaftRecord};
use feos_core::parameter::{Identifier, Parameter, PureRecord};
use feos_core::State;
use ndarray::arr1;
use quantity::*;
use std::sync::Arc;
use typenum::P3;

fn rec(name: &str, m: f64, sigma: f64, eps: f64, mu: Option<f64>, q: Option<f64>) -> PureRecord<PcSaftRecord> {
    PureRecord::new(Identifier::new(None, Some(name), None, None, None, None), 40.0, PcSaftRecord::new(m, sigma, eps, mu, q, None, None, None, None, None, None, None, None))
}

#[test]
fn vx_witness_pcsaft_pure_bulk() {
    let (mut n_ok, mut n_bad) = (0, 0);
    let sets: Vec<(&str, PureRecord<PcSaftRecord>)> = vec![
        ("non-polar, m = 1", rec("a", 1.0, 3.7, 150.0, None, None)),
        ("non-polar, m = 2.6", rec("b", 2.6, 3.6, 230.0, None, None)),
        ("dipolar, m = 1.5", rec("c", 1.5, 3.3, 220.0, Some(2.2), None)),
        ("dipolar, m = 2.9", rec("d", 2.9, 3.4, 240.0, Some(2.7), None)),
        ("quadrupolar, m = 1.7", rec("e", 1.7, 3.1, 170.0, None, Some(4.0))),
        ("quadrupolar, m = 3.2", rec("f", 3.2, 3.5, 230.0, None, Some(5.5))),
    ];
    for (what, record) in sets {
        let Ok(params) = PcSaftParameters::from_records(vec![record], None) else { continue };
        let params = Arc::new(params);
        let eos = Arc::new(PcSaft::new(params.clone()));
        let func = Arc::new(PcSaftFunctional::new(params));
        for (t, v) in [(300.0, 1.2e-4), (300.0, 5.0e-4), (450.0, 1.0e-3), (250.0, 2.0e-2)] {
            let (t, v) = (t * KELVIN, v * METER.powi::<P3>());
            let n = arr1(&[1.3]) * MOL;
            let (Ok(s1), Ok(s2)) = (State::new_nvt(&eos, t, v, &n), State::new_nvt(&func, t, v, &n)) else { continue };
            let a1 = (s1.residual_helmholtz_energy() / (RGAS * t * MOL)).into_value();
            let a2 = (s2.residual_helmholtz_energy() / (RGAS * t * MOL)).into_value();
            n_ok += 1;
            if !((a1 - a2).abs() <= 1e-10 * a1.abs()) {
                n_bad += 1;
                if n_bad <= 8 { println!("WITNESS PC-SAFT, one component ({what}), T={t}, V={v}, n=1.3 mol: A_res/RT = {a1:.10} mol from the equation of state, {a2:.10} mol from the pure-component functional at the same bulk state"); }
            }
        }
    }
    println!("explored: {n_ok} bulk states, {n_bad} off");
}
