// Witness search for C14.5 (run by ./check against a scratch copy; integration test of `feos`, feature gc_pcsaft).
// Heterosegmented gc-PC-SAFT molecules built (a) from the plain segment list (ChemicalRecord: bonds counted and keyed by
// ordered names) and (b) from GcPcSaftChemicalRecords whose bond maps name the same bond under one key, under the
// reversed key, and split over both orientations: the total number of bonds and the pressure of a test state must not
// depend on how the bond map is written.  Anything else is printed as `WITNESS ...`.
#![cfg(feature = "gc_pcsaft")]
use feos::gc_pcsaft::{GcPcSaft, GcPcSaftChemicalRecord, GcPcSaftEosParameters, GcPcSaftRecord};
use feos_core::parameter::{ChemicalRecord, Identifier, ParameterHetero, SegmentRecord};
use feos_core::{Contributions, State};
use ndarray::arr1;
use quantity::*;
use std::collections::HashMap;
use std::sync::Arc;
use typenum::P3;

fn pressure(parameters: GcPcSaftEosParameters) -> Option<f64> {
    let eos = Arc::new(GcPcSaft::new(Arc::new(parameters)));
    State::new_nvt(&eos, 300.0 * KELVIN, 1e-3 * METER.powi::<P3>(), &(arr1(&[1.5]) * MOL)).ok().map(|s| s.pressure(Contributions::Total).convert_to(PASCAL))
}

#[test]
fn vx_witness_gc_bond_counts() {
    let (mut n_ok, mut n_bad) = (0, 0);
    let Ok(segment_records): Result<Vec<SegmentRecord<GcPcSaftRecord>>, _> = SegmentRecord::from_json("parameters/pcsaft/sauer2014_hetero.json") else { return };
    let seg = |l: &[(&str, f64)]| -> HashMap<String, f64> { l.iter().map(|&(s, n)| (s.to_string(), n)).collect() };
    let bon = |l: &[([&str; 2], f64)]| -> HashMap<[String; 2], f64> { l.iter().map(|&([a, b], n)| ([a.to_string(), b.to_string()], n)).collect() };
    // (name, segment list, segment counts, variants of the bond map)
    let molecules: Vec<(&str, Vec<&str>, Vec<(&str, f64)>, Vec<Vec<([&str; 2], f64)>>)> = vec![
        ("propane", vec!["CH3", "CH2", "CH3"], vec![("CH3", 2.0), ("CH2", 1.0)],
            vec![vec![(["CH2", "CH3"], 2.0)], vec![(["CH3", "CH2"], 2.0)], vec![(["CH3", "CH2"], 1.0), (["CH2", "CH3"], 1.0)]]),
        ("ethylene glycol", vec!["OH", "CH2", "CH2", "OH"], vec![("OH", 2.0), ("CH2", 2.0)],
            vec![vec![(["CH2", "OH"], 2.0), (["CH2", "CH2"], 1.0)], vec![(["OH", "CH2"], 1.0), (["CH2", "CH2"], 1.0), (["CH2", "OH"], 1.0)]]),
        ("n-pentane", vec!["CH3", "CH2", "CH2", "CH2", "CH3"], vec![("CH3", 2.0), ("CH2", 3.0)],
            vec![vec![(["CH2", "CH3"], 2.0), (["CH2", "CH2"], 2.0)], vec![(["CH3", "CH2"], 1.0), (["CH2", "CH3"], 1.0), (["CH2", "CH2"], 2.0)]]),
    ];
    for (name, list, counts, variants) in molecules {
        let Ok(reference) = GcPcSaftEosParameters::from_segments(vec![ChemicalRecord::new(Identifier::default(), list.iter().map(|s| s.to_string()).collect(), None)], segment_records.clone(), None) else { continue };
        let n_ref: f64 = reference.bonds.values().sum();
        let Some(p_ref) = pressure(reference) else { continue };
        for bonds in variants {
            let record = GcPcSaftChemicalRecord::new(Identifier::default(), seg(&counts), bon(&bonds), 1.0);
            let Ok(params) = GcPcSaftEosParameters::from_segments(vec![record], segment_records.clone(), None) else { continue };
            let n: f64 = params.bonds.values().sum();
            let Some(p) = pressure(params) else { continue };
            n_ok += 1;
            if !(n == n_ref && ((p - p_ref) / p_ref).abs() < 1e-12) {
                n_bad += 1;
                if n_bad <= 8 { println!("WITNESS gc-PC-SAFT {name} with the bond map {bonds:?}: {n} bonds and p = {p:.6e} Pa; from the segment list {n_ref} bonds and p = {p_ref:.6e} Pa"); }
            }
        }
    }
    println!("explored: {n_ok} bond maps, {n_bad} off");
}
