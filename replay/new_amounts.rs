// Witness search for C03.9 (run by ./check against a scratch copy; integration test of `feos-core`).
// Peng-Robinson ternary (hand-made parameters) built through StateBuilder from mole fractions that are normalised,
// rounded (sum 0.999) or given as ratios (sum 4), together with (T, V, N), (T, rho, N), (T, p, N) and (T, rho, V): the
// returned state must have the specified total amount (resp. density * volume), amounts that add up to it and mole
// fractions x_i / sum(x); anything else is printed as `WITNESS ...`.
use feos_core::cubic::{PengRobinson, PengRobinsonParameters};
use feos_core::StateBuilder;
use ndarray::arr1;
use quantity::*;
use std::sync::Arc;
use typenum::P3;

#[test]
fn vx_witness_new_amounts() {
    let Ok(params) = PengRobinsonParameters::new_simple(&[369.8, 305.4, 425.1], &[41.9e5, 48.2e5, 37.9e5], &[0.15, 0.10, 0.20], &[44.0, 30.0, 58.0]) else { println!("explored: 0"); return };
    let eos = Arc::new(PengRobinson::new(Arc::new(params)));
    let (mut n_ok, mut n_bad) = (0, 0);
    let t = 350.0 * KELVIN;
    for x in [[0.2, 0.3, 0.5], [0.333, 0.333, 0.333], [1.0, 2.0, 1.0], [0.1, 0.1, 0.1]] {
        let xs: f64 = x.iter().sum();
        let xa = arr1(&x);
        let n = 2.5 * MOL;
        let v = 0.05 * METER.powi::<P3>();
        let rho = 40.0 * MOL / METER.powi::<P3>();
        let p = 2.0 * BAR;
        let cases = [
            ("T, V, N", StateBuilder::new(&eos).temperature(t).volume(v).total_moles(n).molefracs(&xa).build(), n),
            ("T, rho, N", StateBuilder::new(&eos).temperature(t).density(rho).total_moles(n).molefracs(&xa).build(), n),
            ("T, p, N", StateBuilder::new(&eos).temperature(t).pressure(p).total_moles(n).molefracs(&xa).build(), n),
            ("T, rho, V", StateBuilder::new(&eos).temperature(t).density(rho).volume(v).molefracs(&xa).build(), rho * v),
        ];
        for (what, r, n_want) in cases {
            let Ok(s) = r else { continue };
            n_ok += 1;
            let dn = ((s.total_moles - n_want) / n_want).into_value().abs();
            let ds = ((s.moles.sum() - n_want) / n_want).into_value().abs();
            let dx = (0..3).map(|i| (s.molefracs[i] - x[i] / xs).abs()).fold(0.0, f64::max);
            if !(dn < 1e-12) || !(ds < 1e-12) || !(dx < 1e-12) {
                n_bad += 1;
                if n_bad <= 6 { println!("WITNESS StateBuilder({what}, molefracs = {x:?}) returned a state with total_moles = {}, sum of moles = {}, mole fractions {} for the specified amount {n_want} and composition x / sum(x)", s.total_moles, s.moles.sum(), s.molefracs); }
            }
        }
    }
    println!("explored: {n_ok} states, {n_bad} off");
}
