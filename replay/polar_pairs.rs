// Witness search for C09.5 (run by ./check against a scratch copy; integration test of `feos`, features pcsaft + dft).
// PC-SAFT as equation of state and as (mixture) functional on hand-made records with two different quadrupolar resp. two
// different dipolar components: relabelling the components (records and amounts together) must not change the residual
// Helmholtz energy, splitting one polar component into two identical ones must not change it, and functional and
// equation of state must agree; anything else is printed as `WITNESS ...`.
#![cfg(all(feature = "pcsaft", feature = "dft"))]
use feos::pcsaft::{PcSaft, PcSaftFunctional, PcSaftParameters, PcSaftRecord};
use feos_core::parameter::{Identifier, Parameter, PureRecord};
use feos_core::{Residual, State};
use ndarray::arr1;
use quantity::*;
use std::sync::Arc;
use typenum::P3;

fn record(name: &str, m: f64, sigma: f64, epsilon_k: f64, mu: Option<f64>, q: Option<f64>) -> PureRecord<PcSaftRecord> {
    PureRecord::new(Identifier::new(None, Some(name), None, None, None, None), 44.0, PcSaftRecord::new(m, sigma, epsilon_k, mu, q, None, None, None, None, None, None, None, None))
}
fn a_res<E: Residual>(eos: &Arc<E>, n: &[f64]) -> Option<f64> {
    let t = 250.0 * KELVIN;
    let s = State::new_nvt(eos, t, 1.0e-4 * METER.powi::<P3>(), &(arr1(n) * MOL)).ok()?;
    Some((s.residual_helmholtz_energy() / (RGAS * t * MOL)).into_value())
}
fn params(r: Vec<PureRecord<PcSaftRecord>>) -> Option<Arc<PcSaftParameters>> { PcSaftParameters::from_records(r, None).ok().map(Arc::new) }

#[test]
fn vx_witness_polar_pairs() {
    let (mut n_ok, mut n_bad) = (0, 0);
    let mut cmp = |what: &str, x: Option<f64>, y: Option<f64>| {
        let (Some(x), Some(y)) = (x, y) else { return };
        n_ok += 1;
        if !((x - y).abs() <= 1e-10 * x.abs()) {
            n_bad += 1;
            if n_bad <= 8 { println!("WITNESS PC-SAFT {what}: A_res/RT = {x:.6} mol versus {y:.6} mol"); }
        }
    };
    let inert = record("inert", 1.0, 3.7, 150.0, None, None);
    for (kind, a, b) in [
        ("two quadrupolar components", record("a", 1.5, 3.2, 170.0, None, Some(4.4)), record("b", 2.0, 3.9, 220.0, None, Some(3.0))),
        ("two dipolar components", record("a", 1.5, 3.2, 170.0, Some(1.8), None), record("b", 2.0, 3.9, 220.0, Some(2.7), None)),
    ] {
        let (Some(pab), Some(pba)) = (params(vec![a.clone(), b.clone()]), params(vec![b.clone(), a.clone()])) else { continue };
        let (Some(p1), Some(p2)) = (params(vec![a.clone(), inert.clone()]), params(vec![a.clone(), a.clone(), inert.clone()])) else { continue };
        let (eab, eba) = (Arc::new(PcSaft::new(pab.clone())), Arc::new(PcSaft::new(pba.clone())));
        let (fab, fba) = (Arc::new(PcSaftFunctional::new(pab)), Arc::new(PcSaftFunctional::new(pba)));
        cmp(&format!("equation of state, {kind}, n = [0.4, 0.8] versus the relabelled mixture"), a_res(&eab, &[0.4, 0.8]), a_res(&eba, &[0.8, 0.4]));
        cmp(&format!("functional, {kind}, n = [0.4, 0.8] versus the relabelled mixture"), a_res(&fab, &[0.4, 0.8]), a_res(&fba, &[0.8, 0.4]));
        cmp(&format!("{kind}, equation of state versus functional"), a_res(&eab, &[0.4, 0.8]), a_res(&fab, &[0.4, 0.8]));
        cmp(&format!("equation of state, one polar component versus the same split into two identical ones ({kind})"), a_res(&Arc::new(PcSaft::new(p1.clone())), &[1.0, 0.2]), a_res(&Arc::new(PcSaft::new(p2.clone())), &[0.4, 0.6, 0.2]));
        cmp(&format!("functional, one polar component versus the same split into two identical ones ({kind})"), a_res(&Arc::new(PcSaftFunctional::new(p1)), &[1.0, 0.2]), a_res(&Arc::new(PcSaftFunctional::new(p2)), &[0.4, 0.6, 0.2]));
    }
    println!("explored: {n_ok} comparisons, {n_bad} off");
}
