// Witness search for C05.7 (run by ./check against a scratch copy; integration test of `feos`, feature pcsaft).
// Heteroazeotropes (vapor + two liquids) of PC-SAFT water / hexane at given pressure and at given temperature, from
// several start compositions: whenever a result is returned the three phases must have one temperature, one pressure
// (the specified one), and every component the same fugacity in all three phases.  Anything else is printed as
// `WITNESS ...`.
#![cfg(feature = "pcsaft")]
use feos::pcsaft::{PcSaft, PcSaftParameters};
use feos_core::parameter::{IdentifierOption, Parameter};
use feos_core::{Contributions, PhaseEquilibrium, Residual, SolverOptions, State};
use quantity::*;
use std::sync::Arc;

fn ln_f<E: Residual>(s: &State<E>) -> Vec<f64> {
    let (x, lp) = (&s.molefracs, s.ln_phi());
    (0..x.len()).map(|i| x[i].ln() + lp[i] + s.pressure(Contributions::Total).convert_to(PASCAL).ln()).collect()
}

#[test]
fn vx_witness_heteroazeotrope() {
    let (mut n_ok, mut n_bad) = (0, 0);
    let Ok(params) = PcSaftParameters::from_json(vec!["water_np", "hexane"], "tests/pcsaft/test_parameters.json", None, IdentifierOption::Name) else { return };
    let eos = Arc::new(PcSaft::new(Arc::new(params)));
    let mut judge = |what: String, r: Result<PhaseEquilibrium<PcSaft, 3>, feos_core::EosError>, p_spec: Option<f64>, t_spec: Option<f64>| {
        let Ok(vlle) = r else { return };
        n_ok += 1;
        let phases = [vlle.vapor(), vlle.liquid1(), vlle.liquid2()];
        let t: Vec<f64> = phases.iter().map(|s| s.temperature.convert_to(KELVIN)).collect();
        let p: Vec<f64> = phases.iter().map(|s| s.pressure(Contributions::Total).convert_to(PASCAL)).collect();
        let f: Vec<Vec<f64>> = phases.iter().map(|s| ln_f(s)).collect();
        let dt = t.iter().map(|x| (x - t[0]).abs()).fold(0.0, f64::max);
        let dp = p.iter().map(|x| ((x - p[0]) / p[0]).abs()).fold(0.0, f64::max);
        let df = (0..2).map(|i| (f[1][i] - f[0][i]).abs().max((f[2][i] - f[0][i]).abs())).fold(0.0, f64::max);
        let spec_ok = p_spec.map(|ps| ((p[0] - ps) / ps).abs() < 1e-8).unwrap_or(true) && t_spec.map(|ts| (t[0] - ts).abs() < 1e-9).unwrap_or(true);
        if !(dt < 1e-8 && dp < 1e-6 && df < 1e-6 && spec_ok) {
            n_bad += 1;
            if n_bad <= 8 { println!("WITNESS heteroazeotrope of PC-SAFT water/hexane, {what}: temperatures {:.5} / {:.5} / {:.5} K (vapor, liquid 1, liquid 2), pressures {:.6e} / {:.6e} / {:.6e} Pa, largest difference of ln f_i between the phases {df:.3e}", t[0], t[1], t[2], p[0], p[1], p[2]); }
        }
    };
    for (p_bar, t_init) in [(1.0, 330.0), (0.5, 315.0), (2.0, 350.0)] {
        for x_init in [(0.99996, 0.02), (0.9999, 0.01), (0.9995, 0.05)] {
            let r = PhaseEquilibrium::heteroazeotrope(&eos, p_bar * BAR, x_init, Some(t_init * KELVIN), SolverOptions::default(), Default::default());
            judge(format!("p = {p_bar} bar, x_init = {x_init:?}"), r, Some(p_bar * 1e5), None);
        }
    }
    for t in [320.0, 335.0, 350.0] {
        for x_init in [(0.9999, 0.01), (0.9995, 0.05)] {
            let r = PhaseEquilibrium::heteroazeotrope(&eos, t * KELVIN, x_init, None, SolverOptions::default(), Default::default());
            judge(format!("T = {t} K, x_init = {x_init:?}"), r, None, Some(t));
        }
    }
    println!("explored: {n_ok} heteroazeotropes returned, {n_bad} off");
}
