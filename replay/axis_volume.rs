
// ---- appended by /verif (witness search for C16.1) to feos-dft/src/geometry.rs of a scratch copy:
// sums the real integration weights for a few (points, length) per geometry and compares with volume().
#[cfg(test)]
mod vx_witness_axis_volume {
    use super::*;
    use quantity::ANGSTROM;
    #[test]
    fn vx_witness_axis_volume() {
        for points in [2usize, 3, 16, 64, 257] {
            for length in [0.7, 10.0, 123.4] {
                let l = length * ANGSTROM;
                for (name, ax) in [
                    ("cartesian", Axis::new_cartesian(points, l, None)),
                    ("spherical", Axis::new_spherical(points, l)),
                    ("polar", Axis::new_polar(points, l)),
                ] {
                    let s = ax.integration_weights.sum();
                    let v = ax.volume();
                    if (s - v).abs() > 1e-9 * v.abs().max(s.abs()) {
                        println!("WITNESS axis={name} points={points} length={length} sum_of_weights={s:.9} volume()={v:.9} ratio={:.6}", v / s);
                    }
                }
            }
        }
    }
}
