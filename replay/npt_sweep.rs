// Witness search for C03.4 / C03.5 (run by ./check against a scratch copy, integration test of `feos`, --features pcsaft).
// (a) a user-defined constant-pressure fluid, (b) a sweep of shipped PC-SAFT propane over (T, p incl. negative p,
// every DensityInitialization): any Ok state whose pressure differs from the requested one by more than 1e3 x the
// solver tolerance is printed as `WITNESS ...`.
use feos::pcsaft::{PcSaft, PcSaftParameters};
use feos_core::parameter::{IdentifierOption, Parameter};
use feos_core::{Components, Contributions, DensityInitialization, ReferenceSystem, Residual, State, StateHD};
use ndarray::{arr1, Array1, ScalarOperand};
use num_dual::DualNum;
use quantity::*;
use std::sync::Arc;

/// "Constant-pressure fluid": beta A_res = -c V / T + N ln V  =>  total pressure = c for every density.
struct ConstP(f64);
impl Components for ConstP {
    fn components(&self) -> usize { 1 }
    fn subset(&self, _: &[usize]) -> Self { ConstP(self.0) }
}
impl Residual for ConstP {
    fn compute_max_density(&self, _: &Array1<f64>) -> f64 { 0.01 }
    fn residual_helmholtz_energy_contributions<D: DualNum<f64> + Copy + ScalarOperand>(&self, s: &StateHD<D>) -> Vec<(String, D)> {
        let n = s.moles.sum();
        vec![("constp".into(), -s.volume * self.0 / s.temperature + n * s.volume.ln())]
    }
}

#[test]
fn vx_witness_npt_user_defined_model() {
    // pinned tree: Vapor and None return Ok with p(state) = 1e-3 for the target 2e-3; Liquid returns Err
    let eos = Arc::new(ConstP(1e-3));
    let moles = Moles::from_reduced(arr1(&[1.0]));
    for init in [DensityInitialization::Vapor, DensityInitialization::Liquid, DensityInitialization::None] {
        match State::new_npt(&eos, 300.0 * KELVIN, Pressure::from_reduced(2e-3), &moles, init) {
            Ok(s) => {
                let p = s.pressure(Contributions::Total).to_reduced();
                if (p - 2e-3).abs() > 1e-9 { println!("WITNESS model=constant-pressure-fluid(c=1e-3) T=300K target_p_reduced=2e-3 state_p_reduced={p:e} rho={:e}", s.density.to_reduced()); }
            }
            Err(e) => println!("Err: {e}"),
        }
    }
}

#[test]
fn vx_witness_npt_shipped_model_sweep() {
    let params = Arc::new(PcSaftParameters::from_json(vec!["propane"], "tests/pcsaft/test_parameters.json", None, IdentifierOption::Name).unwrap());
    let eos = Arc::new(PcSaft::new(params));
    let moles = Moles::from_reduced(arr1(&[1.0]));
    let maxrho = eos.max_density(Some(&moles)).unwrap();
    let (mut nbad, mut nbad_pos, mut ntot, mut worst) = (0, 0, 0, 0.0f64);
    for it in 0..60 {
        let t = (150.0 + 10.0 * it as f64) * KELVIN;
        for ip in -40..60 {
            let pbar = if ip >= 0 { 10f64.powf(-2.0 + 0.1 * ip as f64) } else { -(10f64.powf(-1.0 + 0.1 * (-ip) as f64)) };
            let p = pbar * BAR;
            for (name, init) in [("V", DensityInitialization::Vapor), ("L", DensityInitialization::Liquid), ("N", DensityInitialization::None),
                ("I1", DensityInitialization::InitialDensity(0.3 * maxrho)), ("I2", DensityInitialization::InitialDensity(0.6 * maxrho)), ("I3", DensityInitialization::InitialDensity(0.05 * maxrho))] {
                ntot += 1;
                if let Ok(s) = State::new_npt(&eos, t, p, &moles, init) {
                    let err = (s.pressure(Contributions::Total) - p).to_reduced().abs();
                    let tol = 1e-12f64.max(s.density.to_reduced() * 1e-14) * 1e3;
                    if err > tol {
                        nbad += 1;
                        worst = worst.max(err);
                        if pbar > 0.0 { nbad_pos += 1; }
                        if nbad <= 5 { println!("WITNESS model=pcsaft-propane T={t} p={pbar}bar init={name} rho={:e} |p(state)-p|_reduced={err:e}", s.density.to_reduced()); }
                    }
                }
            }
        }
    }
    println!("total={ntot} bad={nbad} bad_pos={nbad_pos} worst_reduced={worst:e}");
}
