// Witness search for C05.2 (run by ./check against a scratch copy, integration test of `feos`, --features pcsaft).
// Shipped PC-SAFT propane/butane: flash a feed, then flash other feeds on the same tie line with the first
// result as `initial_state`; also flashes without a guess.  Prints `WITNESS ...` whenever the phase amounts of
// a returned equilibrium do not add up to the feed, or a returned phase is not at the specified T and p (initial
// states taken from other temperatures / pressures).
use feos::pcsaft::{PcSaft, PcSaftParameters};
use feos_core::parameter::{IdentifierOption, Parameter};
use feos_core::{PhaseEquilibrium, ReferenceSystem, SolverOptions};
use ndarray::*;
use quantity::*;
use std::sync::Arc;

#[test]
fn vx_witness_flash_guess() {
    let params = Arc::new(PcSaftParameters::from_json(vec!["propane", "butane"], "tests/pcsaft/test_parameters.json", None, IdentifierOption::Name).unwrap());
    let mix = Arc::new(PcSaft::new(params));
    let (t, p) = (250.0 * KELVIN, 1.2 * BAR);
    let feed1 = arr1(&[0.5, 0.5]) * MOL;
    let vle1 = PhaseEquilibrium::tp_flash(&mix, t, p, &feed1, None, SolverOptions::default(), None).unwrap();
    let check = |name: &str, feed: &Moles<Array1<f64>>, vle: &PhaseEquilibrium<PcSaft, 2>| {
        let sum = (vle.vapor().moles.clone() + vle.liquid().moles.clone()).to_reduced();
        let f = feed.to_reduced();
        for i in 0..2 {
            if (sum[i] - f[i]).abs() > 1e-9 * f[i].abs() {
                println!("WITNESS case=\"{name}\" system=pcsaft-propane/butane T=250K p=1.2bar feed_reduced={f} vapor+liquid_reduced={sum}");
                return;
            }
        }
        println!("ok case=\"{name}\"");
    };
    check("no guess", &feed1, &vle1);
    for z in [0.45, 0.55, 0.4, 0.6] {
        let feed2 = arr1(&[z, 1.0 - z]) * MOL;
        match PhaseEquilibrium::tp_flash(&mix, t, p, &feed2, Some(&vle1), SolverOptions::default(), None) {
            Ok(vle2) => check(&format!("initial_state = equilibrium of feed (0.5,0.5), new feed ({z},{})", 1.0 - z), &feed2, &vle2),
            Err(e) => println!("err z={z}: {e}"),
        }
        match PhaseEquilibrium::tp_flash(&mix, t, p, &(arr1(&[2.0 * z, 2.0 * (1.0 - z)]) * MOL), Some(&vle1), SolverOptions::default(), None) {
            Ok(vle2) => check(&format!("initial_state = equilibrium of feed (0.5,0.5), new feed 2x({z},{})", 1.0 - z), &(arr1(&[2.0 * z, 2.0 * (1.0 - z)]) * MOL), &vle2),
            Err(e) => println!("err 2x z={z}: {e}"),
        }
    }
    // C05.5: initial states from neighbouring temperatures / pressures; the result must sit at the requested T and p
    for (dt, dp) in [(1.0, 0.0), (-1.0, 0.0), (2.5, 0.0), (0.0, 0.05), (0.0, -0.05), (1.0, 0.03)] {
        let (t2, p2) = ((250.0 + dt) * KELVIN, (1.2 + dp) * BAR);
        if let Ok(vle2) = PhaseEquilibrium::tp_flash(&mix, t2, p2, &feed1, Some(&vle1), SolverOptions::default(), None) {
            for (ph, s) in [("vapor", vle2.vapor()), ("liquid", vle2.liquid())] {
                let dt_got = (s.temperature - t2).to_reduced().abs();
                let dp_got = ((s.pressure(feos_core::Contributions::Total) - p2) / p2).into_value().abs();
                if dt_got > 1e-10 || dp_got > 1e-8 {
                    println!("WITNESS case=\"initial_state from T=250K p=1.2bar, flash requested at T={t2} p={p2}\" system=pcsaft-propane/butane {ph} phase has T={} p={}", s.temperature, s.pressure(feos_core::Contributions::Total));
                }
            }
        }
    }
}
