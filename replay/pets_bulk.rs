// Witness search for C08.4 (run by ./check against a scratch copy; integration test of `feos`, features pets + dft).
// PeTS as equation of state and as Helmholtz energy functional on hand-made parameter sets (pure, binary and ternary
// mixtures with different diameters and energies, with and without a binary interaction parameter): the residual
// Helmholtz energy of the same bulk state must be the same number for both (hard-sphere + dispersion; whatever differs
// is printed as `WITNESS ...`), from dilute to dense states.
#![cfg(all(feature = "pets", feature = "dft"))]
use feos::pets::{Pets, PetsBinaryRecord, PetsFunctional, PetsParameters, PetsRecord};
use feos_core::parameter::{Identifier, Parameter, PureRecord};
use feos_core::State;
use ndarray::{arr1, Array2};
use quantity::*;
use std::sync::Arc;
use typenum::P3;

fn rec(name: &str, sigma: f64, eps: f64) -> PureRecord<PetsRecord> {
    PureRecord::new(Identifier::new(None, Some(name), None, None, None, None), 40.0, PetsRecord::new(sigma, eps, None, None, None))
}

#[test]
fn vx_witness_pets_bulk() {
    let (mut n_ok, mut n_bad) = (0, 0);
    let sets: Vec<(&str, Vec<PureRecord<PetsRecord>>, Option<f64>, Vec<f64>)> = vec![
        ("pure", vec![rec("a", 3.4, 120.0)], None, vec![1.0]),
        ("binary", vec![rec("a", 3.4, 120.0), rec("b", 3.9, 180.0)], None, vec![0.3, 0.9]),
        ("binary with k_ij", vec![rec("a", 3.4, 120.0), rec("b", 3.9, 180.0)], Some(0.07), vec![0.8, 0.4]),
        ("ternary", vec![rec("a", 3.4, 120.0), rec("b", 3.9, 180.0), rec("c", 3.0, 90.0)], None, vec![0.3, 0.5, 0.4]),
    ];
    for (what, records, kij, n) in sets {
        let nc = records.len();
        let binary = kij.map(|k| Array2::from_shape_fn((nc, nc), |(i, j)| PetsBinaryRecord::from(if i == j { 0.0 } else { k })));
        let Ok(params) = PetsParameters::from_records(records, binary) else { continue };
        let params = Arc::new(params);
        let eos = Arc::new(Pets::new(params.clone()));
        let func = Arc::new(PetsFunctional::new(params));
        for (t, v) in [(150.0, 5.0e-5), (150.0, 1.0e-4), (250.0, 3.0e-4), (120.0, 1.0e-2)] {
            let (t, v) = (t * KELVIN, v * METER.powi::<P3>());
            let (Ok(s1), Ok(s2)) = (State::new_nvt(&eos, t, v, &(arr1(&n) * MOL)), State::new_nvt(&func, t, v, &(arr1(&n) * MOL))) else { continue };
            let a1 = (s1.residual_helmholtz_energy() / (RGAS * t * MOL)).into_value();
            let a2 = (s2.residual_helmholtz_energy() / (RGAS * t * MOL)).into_value();
            n_ok += 1;
            if !((a1 - a2).abs() <= 1e-10 * a1.abs()) {
                n_bad += 1;
                if n_bad <= 8 { println!("WITNESS PeTS, {what}, T={t}, V={v}, n={n:?} mol: A_res/RT = {a1} mol from the equation of state, {a2} mol from the functional at the same bulk state"); }
            }
        }
    }
    println!("explored: {n_ok} bulk states, {n_bad} off");
}
